#!/bin/sh
# Offline setup: python 3.12 venv overlaying /venv (repo + numpy) with z3-solver and jsonschema from the wheelhouse.
set -e
HERE="$(cd "$(dirname "$0")" && pwd)"
V="$HERE/.venv"
if [ -x "$V/bin/python" ] && "$V/bin/python" -c "import z3, numpy, jsonschema, ethosu.vela.scaling" 2>/dev/null; then
  exit 0
fi
rm -rf "$V"
/venv/bin/python -m venv --without-pip "$V"
SP="$V/lib/python3.12/site-packages"
echo "import site; site.addsitedir('/venv/lib/python3.12/site-packages')" > "$SP/_repo_overlay.pth"
PIP_NO_INDEX=1 /venv/bin/python -m pip install -q --no-index --find-links /opt/veriftools/wheels --target "$SP" z3-solver jsonschema
"$V/bin/python" -c "import z3, numpy, jsonschema, ethosu.vela.scaling; print('pyvc overlay venv ok, z3', z3.get_version_string())"
