"""Native sampling cross-check (thorough tier): contracts that were PROVED from the symbolic encoding are evaluated natively on sampled
inputs under CPython / NumPy. A clause that fails natively exposes a wrong encoding of Python semantics in the executor (or a wrong
type declaration in the contract): it is a checker error, never a property violation."""
import copy
import inspect
import math
import random
import time

import numpy as np

from . import contracts as _cm
from .replay import native_clause_env, native_eval
from .values import *  # noqa: F401,F403


class CannotSample(Exception):
    pass


def sample(T_, rnd, depth=0):
    if isinstance(T_, TConst):
        return T_.value
    if isinstance(T_, TInt):
        lo = T_.lo
        hi = T_.hi
        if T_.np:
            nlo, nhi = np_range(T_.np)
            lo = nlo if lo is None else max(lo, nlo)
            hi = nhi if hi is None else min(hi, nhi)
        lo_ = -(1 << 40) if lo is None else lo
        hi_ = (1 << 40) if hi is None else hi
        r = rnd.random()
        if r < 0.3:
            v = rnd.choice([lo_, lo_ + 1, hi_, hi_ - 1, 0, 1, -1, 2, 7, 8, 15, 16, 17, 31, 32, 255, 256, 65535, 65536])
        elif r < 0.6:
            v = rnd.randint(-40, 300)
        elif r < 0.8:
            v = rnd.randint(lo_, hi_)
        else:
            v = (1 << rnd.randint(0, 40)) * rnd.choice((1, -1)) + rnd.randint(-2, 2)
        v = max(lo_, min(hi_, v))
        if T_.np:
            return getattr(np, "%sint%d" % ("" if T_.np[1] else "u", T_.np[0]))(v)
        return int(v)
    if isinstance(T_, TBool):
        return rnd.random() < 0.5
    if isinstance(T_, TFloat):
        r = rnd.random()
        if r < 0.2:
            f = rnd.choice([0.5, 1.0, 2.0, 0.1, 0.2, 0.3, 1e-3, 3.0e-5, 255.0, 1.0 / 3, 2.0 ** -20, 2.0 ** 20, 0.75, 1.5, -1.5, -0.5, 0.0])
        elif r < 0.6:
            f = math.ldexp(rnd.uniform(0.5, 1.0), rnd.randint(-40, 40)) * rnd.choice((1, 1, 1, -1))
        else:
            f = rnd.uniform(-300.0, 300.0)
        if T_.kind == "f32":
            return np.float32(f)
        return np.float64(f) if T_.isnp else float(f)
    if isinstance(T_, TEnum):
        ms = T_.members if T_.members is not None else enum_members(T_.cls)
        return rnd.choice(list(ms))
    if isinstance(T_, TOpt):
        return None if rnd.random() < 0.25 else sample(T_.elem, rnd, depth + 1)
    if isinstance(T_, TTuple):
        vals = [sample(t, rnd, depth + 1) for t in T_.items]
        return T_.cls(*vals) if T_.cls else tuple(vals)
    if isinstance(T_, TStruct):
        cls = T_.cls
        if not isinstance(cls, type):
            raise CannotSample("struct without class")
        obj = cls.__new__(cls)
        for k, ft in T_.fields.items():
            try:
                setattr(obj, k, sample(ft, rnd, depth + 1))
            except AttributeError:
                raise CannotSample("cannot set field %s of %s" % (k, cls.__name__))
        return obj
    if isinstance(T_, TDict):
        return {k: sample(ft, rnd, depth + 1) for k, ft in T_.fields.items()}
    if isinstance(T_, TList):
        n = rnd.choice((0, 1, 2, 3, 4))
        if T_.maxlen is not None:
            n = min(n, T_.maxlen)
        return [sample(T_.elem, rnd, depth + 1) for _ in range(n)]
    if isinstance(T_, TObj) and not isinstance(T_, TMap):
        fields = _cm.REGISTRY.class_fields.get(T_.cls)
        if fields is None or not isinstance(T_.cls, type) or depth > 3:
            raise CannotSample("object of %r" % (T_.cls,))
        obj = T_.cls.__new__(T_.cls)
        for k, ft in fields.items():
            setattr(obj, k, sample(ft, rnd, depth + 1))
        return obj
    raise CannotSample("type %r" % (T_,))


def cross_check(contract, variant, seed=0, want=60, budget_s=8.0):
    """-> dict(function, variant, sampled, accepted, failures[...], skipped=reason or None)"""
    out = dict(function=contract.key, variant=variant, sampled=0, accepted=0, failures=[], skipped=None)
    if not contract.replay or contract.slice_drop is not None or contract.lemma or contract.build is not None:
        out["skipped"] = "slice / lemma / not natively replayable"
        return out
    types = contract.variants[variant]
    rnd = random.Random("%s|%s|%s" % (contract.key, variant, seed))
    try:
        sig = list(inspect.signature(contract.fn).parameters)
    except (TypeError, ValueError):
        out["skipped"] = "no signature"
        return out
    t_end = time.time() + budget_s
    reqs = contract.requires + contract.variant_requires.get(variant, [])
    clauses = [c for c in contract.ensures + contract.variant_ensures.get(variant, []) if not c.startswith("lemma:")]
    while out["accepted"] < want and time.time() < t_end and out["sampled"] < 5000:
        out["sampled"] += 1
        try:
            args = {p: sample(t, rnd) for p, t in types.items()}
        except CannotSample as e:
            out["skipped"] = "cannot build native arguments (%s)" % e
            return out
        nums = [int(v) for v in args.values() if isinstance(v, (int, np.integer)) and not isinstance(v, bool)]
        uni = set(range(-3, 70))
        for n_ in nums[:20]:
            uni.update(range(n_ - 2, n_ + 3))
        _cm.REPLAY_UNIVERSE = sorted(uni)
        try:
            env = native_clause_env(contract, copy.deepcopy(args))
            if not all(eval(cl, env) for cl in reqs):
                continue
        except Exception:
            continue            # precondition not evaluable on this sample
        out["accepted"] += 1
        pre_env = native_clause_env(contract, copy.deepcopy(args))
        call_args = {k: v for k, v in args.items() if k in sig}      # mutable arguments are modified in place
        raised, result = None, None
        try:
            result = contract.fn(**call_args)
        except BaseException as e:  # noqa
            raised = e
        env = native_clause_env(contract, args, result)
        probs = []
        if raised is not None:
            spec = [w for (exc, w) in contract.raises if isinstance(raised, exc)]
            try:
                if not spec:
                    probs.append("raised %s: %s (contract proves no exception)" % (type(raised).__name__, raised))
                elif not any(w is None or native_eval(w, pre_env, pre_env) for w in spec):
                    probs.append("raised %s outside its proved condition" % type(raised).__name__)
            except Exception as e:
                probs.append("raises clause not evaluable natively: %s" % e)
        else:
            for exc, w in contract.raises:
                try:
                    if w is not None and native_eval(w, pre_env, pre_env):
                        probs.append("did not raise %s although (%s)" % (exc.__name__, w))
                except Exception:
                    pass
            for i, cl in enumerate(clauses):
                try:
                    ok = native_eval(cl, env, pre_env)
                except NotImplementedError:
                    continue
                except Exception as e:
                    probs.append("ensures %r raised %s natively" % (cl[:60], e))
                    continue
                if not ok:
                    probs.append("ensures is false natively: %s" % cl[:120])
        if probs and len(out["failures"]) < 3:
            out["failures"].append(dict(args={k: repr(v)[:120] for k, v in args.items()}, observed=repr(result)[:120] if raised is None else repr(raised)[:120],
                                        problems=probs[:3]))
    return out
