"""Sound interval analysis over z3 integer terms (used to drop numpy wrap-arounds that cannot happen and to give
bounds to abstracted nonlinear products)."""
import z3

INF = float("inf")


class Bounds(dict):
    """var id -> (var, lo, hi); .defs: var id -> defining term (from top-level equalities var == term)."""

    def __init__(self):
        dict.__init__(self)
        self.defs = {}
        self.keep = []
        self.version = 0
        self.iv_memo = {}
        self.iv_version = -1

    def clone(self):
        b = Bounds()
        b.update(self)
        b.defs = dict(self.defs)
        b.keep = list(self.keep)
        b.version = self.version
        return b

    def memo(self):
        if self.iv_version != self.version:
            self.iv_memo = {}
            self.iv_version = self.version
        return self.iv_memo


def add_assertion(b, assertion):
    """Incrementally record the bounds / definitions implied by one more top-level assertion."""

    def upd(x, lo=None, hi=None):
        k = x.get_id()
        cur = b.get(k, (x, -INF, INF))
        nlo = cur[1] if lo is None else max(cur[1], lo)
        nhi = cur[2] if hi is None else min(cur[2], hi)
        b[k] = (x, nlo, nhi)

    def is_var(t):
        return z3.is_const(t) and t.decl().kind() == z3.Z3_OP_UNINTERPRETED and z3.is_int(t)

    def is_uf(t):
        return z3.is_app(t) and t.decl().kind() == z3.Z3_OP_UNINTERPRETED

    def visit(t, pos=True):
        if z3.is_and(t) and pos:
            for c in t.children():
                visit(c, True)
            return
        if z3.is_not(t):
            inner = t.arg(0)
            if z3.is_or(inner) and pos:
                for c in inner.children():
                    visit(c, False)
                return
            visit(inner, not pos)
            return
        if z3.is_or(t) and not pos:
            for c in t.children():
                visit(c, False)
            return
        if not z3.is_app(t) or t.num_args() != 2:
            return
        k = t.decl().kind()
        ops = {z3.Z3_OP_LE: "<=", z3.Z3_OP_GE: ">=", z3.Z3_OP_LT: "<", z3.Z3_OP_GT: ">", z3.Z3_OP_EQ: "=="}
        if k not in ops:
            return
        a, c = t.arg(0), t.arg(1)
        op = ops[k]
        if not pos:
            op = {"<=": ">", ">=": "<", "<": ">=", ">": "<=", "==": None}[op]
            if op is None:
                return
        if op == "==" and z3.is_int(a):
            if is_uf(a) and not z3.is_int_value(c) and a.get_id() not in b.defs:
                b.defs[a.get_id()] = c
                b.keep.append(a)
            elif is_uf(c) and not z3.is_int_value(a) and c.get_id() not in b.defs:
                b.defs[c.get_id()] = a
                b.keep.append(c)
        if is_var(a) and z3.is_int_value(c):
            v = c.as_long()
            x = a
        elif is_var(c) and z3.is_int_value(a):
            v = a.as_long()
            x = c
            op = {"<=": ">=", ">=": "<=", "<": ">", ">": "<", "==": "=="}[op]
        else:
            return
        if op == "<=":
            upd(x, hi=v)
        elif op == "<":
            upd(x, hi=v - 1)
        elif op == ">=":
            upd(x, lo=v)
        elif op == ">":
            upd(x, lo=v + 1)
        elif op == "==":
            upd(x, lo=v, hi=v)

    visit(assertion, True)
    b.version += 1


def collect_bounds(assertions):
    """Bounds of uninterpreted Int constants implied by top-level conjuncts of simple shape."""
    b = Bounds()
    for a in assertions:
        add_assertion(b, a)
    return b


def mul_iv(a, b):
    def m(x, y):
        if x == 0 or y == 0:
            return 0
        return x * y
    cs = [m(a[0], b[0]), m(a[0], b[1]), m(a[1], b[0]), m(a[1], b[1])]
    return (min(cs), max(cs))


def interval(t, bounds, memo=None, depth=0):
    """(lo, hi) with lo/hi ints or +-inf such that lo <= t <= hi under `bounds`."""
    if memo is None:
        memo = bounds.memo() if isinstance(bounds, Bounds) else {}
    k = t.get_id()
    if k in memo:
        return memo[k]
    r = _interval(t, bounds, memo, depth)
    memo[k] = r
    return r


def _interval(t, bounds, memo, depth):
    if depth > 400:
        return (-INF, INF)
    if z3.is_int_value(t):
        v = t.as_long()
        return (v, v)
    if not z3.is_app(t) or not z3.is_int(t):
        return (-INF, INF)
    k = t.decl().kind()
    ch = t.children()
    if k == z3.Z3_OP_UNINTERPRETED:
        e = bounds.get(t.get_id()) if not ch else None
        lo, hi = (e[1], e[2]) if e else (-INF, INF)
        d = getattr(bounds, "defs", {}).get(t.get_id())
        if d is not None and depth < 200:
            memo[t.get_id()] = (lo, hi)  # cycle guard
            dl, dh = interval(d, bounds, memo, depth + 1)
            lo, hi = max(lo, dl), min(hi, dh)
        return (lo, hi)

    def rec(x):
        return interval(x, bounds, memo, depth + 1)

    if k == z3.Z3_OP_ADD:
        lo = hi = 0
        for c in ch:
            a = rec(c)
            lo += a[0]
            hi += a[1]
        return (lo, hi)
    if k == z3.Z3_OP_SUB:
        a = rec(ch[0])
        lo, hi = a
        for c in ch[1:]:
            b = rec(c)
            lo -= b[1]
            hi -= b[0]
        return (lo, hi)
    if k == z3.Z3_OP_UMINUS:
        a = rec(ch[0])
        return (-a[1], -a[0])
    if k == z3.Z3_OP_MUL:
        r = (1, 1)
        for c in ch:
            r = mul_iv(r, rec(c))
        if len(ch) == 2 and ch[0].get_id() == ch[1].get_id():
            r = (max(0, r[0]), r[1])  # square
        return r
    if k == z3.Z3_OP_ITE:
        a, b = rec(ch[1]), rec(ch[2])
        return (min(a[0], b[0]), max(a[1], b[1]))
    if k in (z3.Z3_OP_IDIV, z3.Z3_OP_DIV) and z3.is_int_value(ch[1]) and ch[1].as_long() > 0:
        d = ch[1].as_long()
        a = rec(ch[0])
        lo = a[0] if a[0] == -INF else a[0] // d
        hi = a[1] if a[1] == INF else a[1] // d
        return (lo, hi)
    if k in (z3.Z3_OP_IDIV, z3.Z3_OP_DIV):
        b = rec(ch[1])
        if b[0] >= 1:   # positive divisor: |a div b| <= |a| and the sign is kept
            a = rec(ch[0])
            return (min(a[0], 0), max(a[1], 0))
    if k == z3.Z3_OP_MOD:
        b = rec(ch[1])
        if b[0] >= 1 and b[1] != INF:
            return (0, b[1] - 1)
    if k == z3.Z3_OP_MOD and z3.is_int_value(ch[1]) and ch[1].as_long() > 0:
        d = ch[1].as_long()
        a = rec(ch[0])
        if a[0] >= 0 and a[1] < d:
            return a
        return (0, d - 1)
    return (-INF, INF)


def decide(c, bounds, memo=None):
    """True / False if the Boolean term is decided by interval reasoning, else None (sound, incomplete)."""
    if memo is None:
        memo = bounds.memo() if isinstance(bounds, Bounds) else {}
    if z3.is_true(c):
        return True
    if z3.is_false(c):
        return False
    if z3.is_not(c):
        r = decide(c.arg(0), bounds, memo)
        return None if r is None else (not r)
    if z3.is_and(c):
        rs = [decide(x, bounds, memo) for x in c.children()]
        if any(r is False for r in rs):
            return False
        if all(r is True for r in rs):
            return True
        return None
    if z3.is_or(c):
        rs = [decide(x, bounds, memo) for x in c.children()]
        if any(r is True for r in rs):
            return True
        if all(r is False for r in rs):
            return False
        return None
    if not z3.is_app(c) or c.num_args() != 2:
        return None
    k = c.decl().kind()
    a, b = c.arg(0), c.arg(1)
    if not (z3.is_int(a) and z3.is_int(b)):
        return None
    ia, ib = interval(a, bounds, memo), interval(b, bounds, memo)
    if k == z3.Z3_OP_LE:
        if ia[1] <= ib[0]:
            return True
        if ia[0] > ib[1]:
            return False
    elif k == z3.Z3_OP_LT:
        if ia[1] < ib[0]:
            return True
        if ia[0] >= ib[1]:
            return False
    elif k == z3.Z3_OP_GE:
        if ia[0] >= ib[1]:
            return True
        if ia[1] < ib[0]:
            return False
    elif k == z3.Z3_OP_GT:
        if ia[0] > ib[1]:
            return True
        if ia[1] <= ib[0]:
            return False
    elif k == z3.Z3_OP_EQ:
        if ia[1] < ib[0] or ib[1] < ia[0]:
            return False
        if ia[0] == ia[1] == ib[0] == ib[1]:
            return True
    return None
