import argparse
import json
import os
import sys

ROOT = os.path.dirname(os.path.dirname(os.path.abspath(__file__)))
sys.path.insert(0, ROOT)
sys.setrecursionlimit(20000)


def main():
    ap = argparse.ArgumentParser()
    ap.add_argument("property")
    ap.add_argument("--tier", default=os.environ.get("VERIF_TIER", "quick"), choices=["quick", "thorough"])
    ap.add_argument("--replay")
    ap.add_argument("--only")
    ap.add_argument("--jobs", type=int)
    ap.add_argument("--write-inventory", action="store_true")
    a = ap.parse_args()
    seed = int(os.environ.get("VERIF_SEED", "0") or 0)
    from pyvc import runner
    if a.replay:
        runner.load_contracts()
        from pyvc import replay
        sys.exit(replay.replay_file(a.replay))
    code, ev = runner.run_property(a.property, a.tier, seed, a.jobs, a.only)
    if ev is not None:
        try:
            import jsonschema
            schema = json.load(open("/root/.vp/EVIDENCE.schema.json"))
            jsonschema.validate(ev, schema)
        except FileNotFoundError:
            pass
        except Exception as e:  # evidence must validate
            print("checker error: evidence does not validate: %s" % str(e)[:300])
            code = 3
    if a.write_inventory and ev is not None and code == 0:
        runner.write_inventory(a.property, ev)
    print({0: "HELD", 1: "VIOLATION", 2: "UNDECIDED", 3: "CHECKER-ERROR"}[code], "property=%s" % a.property)
    sys.exit(code)


if __name__ == "__main__":
    main()
