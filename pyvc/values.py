"""Symbolic value classes and type descriptors for pyvc."""
import z3

# ----------------------------------------------------------------------------------------------
# control-flow signals of the interpreted program


class Unsupported(Exception):
    """The construct is outside the verified subset: the function becomes *undecided*."""


class PathEnd(Exception):
    """The current symbolic path ends here (infeasible, or cut at a loop head)."""


class ReturnSignal(Exception):
    def __init__(self, value):
        self.value = value


class BreakSignal(Exception):
    pass


class ContinueSignal(Exception):
    pass


class PyRaise(Exception):
    """The interpreted program raises a Python exception of class `cls`."""

    def __init__(self, cls, msg="", line=0):
        Exception.__init__(self, "%s: %s" % (getattr(cls, "__name__", cls), msg))
        self.cls = cls
        self.msg = msg
        self.line = line


# ----------------------------------------------------------------------------------------------
# values


class V:
    pass


class VInt(V):
    """Python int (np is None) or numpy fixed-width integer scalar (np = (bits, signed)).
    bv: optional z3 bit-vector (signed interpretation) denoting the same value; ints that come out of
    floating-point conversions keep it so that obligations about them stay in the bit-vector/FP theory."""

    __slots__ = ("t", "np", "bv")

    def __init__(self, t, np=None, bv=None):
        if isinstance(t, int):
            t = z3.IntVal(t)
        self.t = t
        self.np = np
        self.bv = bv

    def __repr__(self):
        return "VInt(%s%s)" % (self.t, "" if self.np is None else ":np%s%d" % ("i" if self.np[1] else "u", self.np[0]))


class VBool(V):
    __slots__ = ("t",)

    def __init__(self, t):
        if isinstance(t, bool):
            t = z3.BoolVal(t)
        self.t = t

    def __repr__(self):
        return "VBool(%s)" % self.t


class VFloat(V):
    """IEEE float. kind 'f64' (python float / np.float64) or 'f32' (np.float32); t is a z3 FP term (bit exact).
    q: optional (num Int term, den positive power-of-two int) with value == num/den exactly (dyadic rationals that
    arise from ints by exact operations); comparisons and float->int conversions then stay in integer arithmetic."""

    __slots__ = ("t", "kind", "isnp", "q")

    def __init__(self, t, kind="f64", isnp=False, q=None):
        self.t = t
        self.kind = kind
        self.isnp = isnp
        self.q = q

    def __repr__(self):
        return "VFloat(%s:%s)" % (self.t, self.kind)


class VNone(V):
    def __repr__(self):
        return "VNone"


NONE = VNone()


class VStr(V):
    __slots__ = ("s",)

    def __init__(self, s):
        self.s = s

    def __repr__(self):
        return "VStr(%r)" % self.s


class VStrSym(V):
    """Symbolic string, known only up to identity: t is an Int term (non-negative ids for unknown strings; string
    literals are interned to negative ids, see intern_str)."""

    __slots__ = ("t",)

    def __init__(self, t):
        self.t = t

    def __repr__(self):
        return "VStrSym(%s)" % self.t


_INTERN = {}


def intern_str(s):
    if s not in _INTERN:
        _INTERN[s] = -(len(_INTERN) + 1)
    return _INTERN[s]


class VTuple(V):
    __slots__ = ("items", "cls")

    def __init__(self, items, cls=None):
        self.items = list(items)
        self.cls = cls  # NamedTuple class or None

    def __repr__(self):
        return "VTuple(%s%r)" % (self.cls.__name__ if self.cls else "", self.items)


class VEnum(V):
    """Member of the Enum class `cls`; t is the index into list(cls)."""

    __slots__ = ("cls", "t")

    def __init__(self, cls, t):
        if isinstance(t, int):
            t = z3.IntVal(t)
        self.cls = cls
        self.t = t

    def __repr__(self):
        return "VEnum(%s,%s)" % (self.cls.__name__, self.t)


class VNative(V):
    """A native Python object used as a name: module, function, class, constant container."""

    __slots__ = ("obj",)

    def __init__(self, obj):
        self.obj = obj

    def __repr__(self):
        return "VNative(%r)" % (self.obj,)


class VList(V):
    """Reference to a list. loc is an int (local store) or a ('heap', field, ref_term) path."""

    __slots__ = ("loc",)

    def __init__(self, loc):
        self.loc = loc

    def __repr__(self):
        return "VList(%r)" % (self.loc,)


class VStruct(V):
    """Immutable record with value semantics (read-only view of an object)."""

    __slots__ = ("cls", "fields")

    def __init__(self, cls, fields):
        self.cls = cls
        self.fields = fields

    def __repr__(self):
        return "VStruct(%s)" % (getattr(self.cls, "__name__", self.cls),)


class VObj(V):
    """Reference to a heap object of class cls."""

    __slots__ = ("cls", "t")

    def __init__(self, cls, t):
        self.cls = cls
        self.t = t

    def __repr__(self):
        return "VObj(%s,%s)" % (getattr(self.cls, "__name__", self.cls), self.t)


class VOpt(V):
    """Optional value: None if is_none else val. Only stored, never computed with (see Engine.force)."""

    __slots__ = ("is_none", "val")

    def __init__(self, is_none, val):
        self.is_none = is_none
        self.val = val


class VClosure(V):
    __slots__ = ("node", "env", "glob")

    def __init__(self, node, env, glob):
        self.node = node
        self.env = env
        self.glob = glob


class VBound(V):
    """Bound method: native function + symbolic self."""

    __slots__ = ("selfv", "func")

    def __init__(self, selfv, func):
        self.selfv = selfv
        self.func = func


class VOpaque(V):
    """Value of an uninterpreted sort (result of a pure external)."""

    __slots__ = ("t", "tag")

    def __init__(self, t, tag=""):
        self.t = t
        self.tag = tag


class VKeys(V):
    """dict.keys() view of one heap map, or the intersection (`&`) of two such views."""

    __slots__ = ("maps",)

    def __init__(self, maps):
        self.maps = list(maps)


class VMap(V):
    """Finite map with concrete key set known to the engine (python dict of hashable -> V)."""

    __slots__ = ("d",)

    def __init__(self, d):
        self.d = d


# ----------------------------------------------------------------------------------------------
# type descriptors (used by contracts to declare parameters, results, havoc types)


class T:
    pass


class TInt(T):
    def __init__(self, np=None, lo=None, hi=None):
        self.np = np
        self.lo = lo
        self.hi = hi

    def __repr__(self):
        if self.np is None:
            return "PyInt"
        return "np.%sint%d" % ("" if self.np[1] else "u", self.np[0])


class TStr(T):
    def __repr__(self):
        return "str"


class TBool(T):
    def __repr__(self):
        return "PyBool"


class TFloat(T):
    def __init__(self, kind="f64", isnp=False):
        self.kind = kind
        self.isnp = isnp

    def __repr__(self):
        return {"f64": "np.float64" if self.isnp else "float", "f32": "np.float32"}[self.kind]


class TNone(T):
    def __repr__(self):
        return "None"


class TTuple(T):
    def __init__(self, *items, cls=None):
        self.items = list(items)
        self.cls = cls

    def __repr__(self):
        return "Tuple%s%r" % (self.cls.__name__ if self.cls else "", self.items)


class TEnum(T):
    def __init__(self, cls, members=None):
        self.cls = cls
        self.members = members  # optional subset (list of members)

    def __repr__(self):
        return "Enum(%s)" % self.cls.__name__


class TList(T):
    def __init__(self, elem, maxlen=None):
        self.elem = elem
        self.maxlen = maxlen

    def __repr__(self):
        return "List[%r]" % (self.elem,)


class TOpt(T):
    def __init__(self, elem):
        self.elem = elem

    def __repr__(self):
        return "Optional[%r]" % (self.elem,)


class TStruct(T):
    def __init__(self, cls, **fields):
        self.cls = cls
        self.fields = fields

    def __repr__(self):
        return "Struct(%s)" % getattr(self.cls, "__name__", self.cls)


class TDict(T):
    """A dict with a fixed, known set of (string) keys and typed symbolic values (e.g. Operation.attrs)."""

    def __init__(self, **fields):
        self.fields = fields

    def __repr__(self):
        return "Dict%r" % (sorted(self.fields),)


class TObj(T):
    def __init__(self, cls):
        self.cls = cls

    def __repr__(self):
        return "Obj(%s)" % getattr(self.cls, "__name__", self.cls)


class MapCls:
    """Pseudo-class of heap-allocated finite maps (dict / defaultdict(lambda: None)) with values of type valT.
    Keys are enum members, ints or strings, encoded as integers."""

    _cache = {}

    def __new__(cls, valT):
        tag = repr(valT)
        if tag not in cls._cache:
            o = object.__new__(cls)
            o.valT = valT
            o.tag = "".join(ch if ch.isalnum() else "_" for ch in tag)
            o.__name__ = "map<%s>" % tag
            cls._cache[tag] = o
        return cls._cache[tag]


class TMap(T):
    """Reference to a heap map object (see MapCls)."""

    def __init__(self, valT):
        self.valT = valT
        self.cls = MapCls(valT)

    def __repr__(self):
        return "Map[%r]" % (self.valT,)


class TConst(T):
    def __init__(self, value):
        self.value = value

    def __repr__(self):
        return "Const(%r)" % (self.value,)


class TOpaque(T):
    def __init__(self, tag, native=None):
        self.tag = tag
        self.native = native  # factory of a representative native object (replay only)

    def __repr__(self):
        return "Opaque(%s)" % self.tag


PyInt = TInt()
PyBool = TBool()
F64 = TFloat("f64", False)
NpF64 = TFloat("f64", True)
F32 = TFloat("f32", True)
I8 = TInt((8, True))
I16 = TInt((16, True))
I32 = TInt((32, True))
I64 = TInt((64, True))
U8 = TInt((8, False))
U16 = TInt((16, False))
U32 = TInt((32, False))
U64 = TInt((64, False))


def np_range(np):
    bits, signed = np
    if signed:
        return -(1 << (bits - 1)), (1 << (bits - 1)) - 1
    return 0, (1 << bits) - 1


def enum_members(cls):
    """All named members of an Enum class in definition order (for IntFlag this includes composite / zero members,
    which plain iteration skips); aliases of the same member object are listed once."""
    out = []
    for m in cls.__members__.values():
        if not any(m is x for x in out):
            out.append(m)
    return out
