"""Native replay of counter-models on the real function, known-findings handling, replay files."""
import copy
import json
import os
import traceback

import numpy as np

from .values import *  # noqa: F401,F403

ROOT = os.path.dirname(os.path.dirname(os.path.abspath(__file__)))
OUT = os.environ.get("VERIF_OUT_DIR") or ROOT   # developer override (seed sweeps): where evidence / replays are written


def load_known_findings():
    p = os.path.join(ROOT, "known_findings.json")
    if not os.path.exists(p):
        return []
    return json.load(open(p)).get("findings", [])


def match_known(known, pid, agg_ob, rep):
    """A failed obligation is a known finding iff property, obligation name match and (if the entry gives
    a predicate over the replay input) the concrete input lies in the recorded region."""
    for kf in known:
        if kf.get("status", "open") != "open":
            continue  # 'fixed' entries suppress nothing
        if kf["property"] != pid:
            continue
        if kf["obligation"] != agg_ob["name"]:
            continue
        region = kf.get("region")
        if region:
            if rep.get("args_native") is None:
                continue
            try:
                ok = eval(region, {"np": np, "math": __import__("math")}, dict(rep["args_native"]))
            except Exception:
                ok = False
            if not ok:
                continue
        return kf
    return None


_OBJ_CACHE = {}


def native_of(T_, mv):
    """Build a native Python value of declared type T_ from the JSON model value mv."""
    if isinstance(T_, TConst):
        return T_.value
    if mv is None:
        return None
    if isinstance(T_, TInt):
        v = mv["v"] if isinstance(mv, dict) else mv
        if T_.np:
            return getattr(np, "%sint%d" % ("" if T_.np[1] else "u", T_.np[0]))(v)
        return int(v)
    if isinstance(T_, TBool):
        return bool(mv)
    if isinstance(T_, TFloat):
        f = float.fromhex(mv["hex"])
        if T_.kind == "f32":
            return np.float32(f)
        return np.float64(f) if T_.isnp else f
    if isinstance(T_, TTuple):
        items = mv["items"] if "items" in mv else mv["tuple"]
        vals = [native_of(t, x) for t, x in zip(T_.items, items)]
        return T_.cls(*vals) if T_.cls else tuple(vals)
    if isinstance(T_, TEnum):
        return T_.cls[mv["member"]]
    if isinstance(T_, TOpt):
        return native_of(T_.elem, mv)
    if isinstance(T_, TStruct):
        cls = T_.cls
        obj = cls.__new__(cls) if isinstance(cls, type) else type(str(cls), (), {})()
        for k, ft in T_.fields.items():
            setattr(obj, k, native_of(ft, mv["fields"][k]))
        return obj
    if isinstance(T_, TList):
        if isinstance(mv, dict) and "list_len" in mv:
            head = [native_of(T_.elem, x) for x in mv["head"]]
            if mv["list_len"] > (1 << 26):
                raise ValueError("model list too long to materialise (%d elements)" % mv["list_len"])
            return head + [head[-1]] * (mv["list_len"] - len(head))
        return [native_of(T_.elem, x) for x in mv]
    if isinstance(T_, TDict):
        return {k: native_of(ft, mv["dict"][k]) for k, ft in T_.fields.items()}
    if isinstance(T_, TMap):
        if "entries" not in mv:
            raise ValueError("model has no entries for the map")
        key = ("map", mv.get("ref"))
        if key in _OBJ_CACHE:
            return _OBJ_CACHE[key]
        d = {}
        _OBJ_CACHE[key] = d
        for k, val in mv["entries"]:
            if k >= (1 << 20):
                raise ValueError("enum-keyed map cannot be rebuilt natively")
            d[int(k)] = native_of(T_.valT, val)
        return d
    if isinstance(T_, TObj):
        cls = T_.cls
        key = (getattr(cls, "__name__", str(cls)), mv.get("ref"))
        if key in _OBJ_CACHE:
            return _OBJ_CACHE[key]       # same reference in the model = same native object (aliasing preserved)
        if "fields" not in mv:
            raise ValueError("model has no field values for object of %s" % getattr(cls, "__name__", cls))
        from .contracts import REGISTRY
        ftypes = REGISTRY.class_fields.get(cls, {})
        obj = cls.__new__(cls)
        _OBJ_CACHE[key] = obj
        for k, fv in mv["fields"].items():
            if isinstance(fv, str) and fv.startswith("<"):
                continue
            setattr(obj, k, native_of(ftypes[k], fv))
        return obj
    if isinstance(T_, TOpaque):
        if T_.native is None:
            raise ValueError("opaque %s has no native representative" % T_.tag)
        return T_.native()
    raise ValueError("cannot build native value of %r" % (T_,))


def math_view(v):
    if isinstance(v, np.integer):
        return int(v)
    if isinstance(v, tuple) and not hasattr(v, "_fields"):
        return tuple(math_view(x) for x in v)
    return v


def native_clause_env(contract, args, result=None):
    env = dict(contract.bindings)
    env.update({k: math_view(v) for k, v in args.items()})
    env["result"] = math_view(result)
    env["old"] = lambda x: x
    return env


import ast as _ast


def native_eval(clause, env, pre_env=None):
    """Evaluate a clause natively. `old(e)` denotes the value of e in the pre-state: e is evaluated in pre_env (an environment built
    from a deep copy of the arguments taken before the call)."""
    src = clause.strip()
    if src.startswith("lemma:"):
        src = src[6:].strip()
    if (pre_env is None or "old(" not in src) and "implies(" not in src:
        return eval(src, env)
    tree = _ast.parse(src, mode="eval")
    olds = {}

    class R(_ast.NodeTransformer):
        def visit_Call(self, node):
            if isinstance(node.func, _ast.Name) and node.func.id == "implies" and len(node.args) == 2 and not node.keywords:
                # implies(a, b) is lazy in the proof (b is evaluated under the guard a): natively `(not a) or b`
                a, b = self.visit(node.args[0]), self.visit(node.args[1])
                return _ast.copy_location(_ast.BoolOp(op=_ast.Or(), values=[_ast.UnaryOp(op=_ast.Not(), operand=a), b]), node)
            if pre_env is not None and isinstance(node.func, _ast.Name) and node.func.id == "old" and len(node.args) == 1:
                name = "_old_%d" % len(olds)
                olds[name] = eval(compile(_ast.Expression(body=node.args[0]), "<old>", "eval"), pre_env)
                return _ast.copy_location(_ast.Name(id=name, ctx=_ast.Load()), node)
            return self.generic_visit(node)
    tree = _ast.fix_missing_locations(R().visit(tree))
    env2 = dict(env)
    env2.update(olds)
    return eval(compile(tree, "<clause>", "eval"), env2)


class _Timeout(Exception):
    pass


def replay_obligation(contract, agg_ob, pid, limit_s=60):
    """Native replay under a wall-clock limit (a replay that does not finish is 'not_replayable', never a hang)."""
    import signal

    def _alarm(signum, frame):
        raise _Timeout()
    old_h = signal.signal(signal.SIGALRM, _alarm)
    signal.alarm(limit_s)
    try:
        return _replay_obligation(contract, agg_ob, pid)
    except _Timeout:
        return dict(function=contract.key, obligation=agg_ob["name"], kind=agg_ob["kind"], label=agg_ob["label"], line=agg_ob.get("line"),
                    model=agg_ob.get("model"), verdict="not_replayable", detail="native replay exceeded %d s" % limit_s, args_native=None)
    finally:
        signal.alarm(0)
        signal.signal(signal.SIGALRM, old_h)


def _replay_obligation(contract, agg_ob, pid):
    """Run the real function natively on the counter-model and evaluate the contract natively.
    verdict: confirmed | spurious | no_model | not_replayable"""
    model = agg_ob.get("model")
    out = dict(function=contract.key, obligation=agg_ob["name"], kind=agg_ob["kind"], label=agg_ob["label"],
               line=agg_ob.get("line"), model=model, verdict="no_model", detail="", args_native=None)
    if not model or not contract.replay:
        if model and contract.build is None:
            out["verdict"] = "not_replayable"
        if not (model and contract.build):
            return out
    types = contract.variants[agg_ob["variant"]]
    try:
        if contract.build is not None:
            args = contract.build(model, types)
        else:
            _OBJ_CACHE.clear()
            args = {p: native_of(t, model.get(p)) for p, t in types.items()}
    except Exception as e:
        out["verdict"] = "not_replayable"
        out["detail"] = "cannot build native arguments: %s" % e
        return out
    try:
        from . import contracts as _cm
        nums = set()

        def collect(x, d=0):
            if isinstance(x, bool) or d > 6:
                return
            if isinstance(x, (int, np.integer)):
                nums.add(int(x))
            elif isinstance(x, (list, tuple)):
                for y in x:
                    collect(y, d + 1)
            elif isinstance(x, dict):
                for k_, y in x.items():
                    collect(k_, d + 1)
                    collect(y, d + 1)
            elif hasattr(x, "__dict__"):
                for y in vars(x).values():
                    collect(y, d + 1)
        collect(list(args.values()))
        uni = set()
        for n_ in list(nums)[:200]:
            uni.update(range(n_ - 2, n_ + 3))
        _cm.REPLAY_UNIVERSE = sorted(uni)[:5000]
    except Exception:
        pass
    out["args_native"] = {k: v for k, v in args.items()}
    def _safe_repr(v):
        try:
            return repr(v) if not (isinstance(v, list) and len(v) > 64) else "list of %d elements starting %r" % (len(v), v[:8])
        except Exception:
            try:
                return "%s(%r)" % (type(v).__name__, vars(v))
            except Exception:
                return "<%s>" % type(v).__name__
    out["args_repr"] = {k: _safe_repr(v) for k, v in args.items()}
    try:
        env = native_clause_env(contract, copy.deepcopy(args))
        for cl in contract.requires + contract.variant_requires.get(agg_ob["variant"], []):
            if not eval(cl, env):
                out["verdict"] = "spurious"
                out["detail"] = "model does not satisfy requires natively: %s" % cl
                return out
        import inspect
        sig_params = list(inspect.signature(contract.fn).parameters)
        pre_env = native_clause_env(contract, copy.deepcopy(args))
        # the function runs on `args` itself (mutable arguments are modified in place; clauses see them after the call)
        call_args = {k: v for k, v in args.items() if k in sig_params}
        raised = None
        result = None
        try:
            result = contract.fn(**call_args)
        except BaseException as e:  # noqa
            raised = e
        out["observed"] = repr(result) if raised is None else "raised %s: %s" % (type(raised).__name__, raised)
        env = native_clause_env(contract, args, result)
        problems = []
        if raised is not None:
            spec = [w for (exc, w) in contract.raises if isinstance(raised, exc)]
            if not spec:
                problems.append("raised %s which the contract does not allow" % type(raised).__name__)
            elif not any(w is None or native_eval(w, pre_env, pre_env) for w in spec):
                problems.append("raised %s outside its specified condition" % type(raised).__name__)
        else:
            for exc, w in contract.raises:
                if w is not None and native_eval(w, pre_env, pre_env):
                    problems.append("did not raise %s although (%s) holds" % (exc.__name__, w))
            for i, cl in enumerate(contract.ensures + contract.variant_ensures.get(agg_ob["variant"], [])):
                if cl.startswith("lemma:"):
                    continue
                try:
                    ok = native_eval(cl, env, pre_env)
                except NotImplementedError:
                    continue   # proof-only clause (ghost terms)
                except Exception as e:
                    ok = False
                    problems.append("ensures[%d] raised %s natively" % (i, e))
                if not ok:
                    problems.append("ensures[%d] is false natively: %s" % (i, cl))
        if problems:
            out["verdict"] = "confirmed"
            out["detail"] = "; ".join(problems)
        else:
            out["verdict"] = "spurious"
            out["detail"] = "the real function satisfies the contract on this input natively"
    except Exception:
        out["verdict"] = "not_replayable"
        out["detail"] = traceback.format_exc()[-800:]
    return out


def write_replay(pid, agg_ob, rep):
    d = os.path.join(OUT, "replays", pid)
    os.makedirs(d, exist_ok=True)
    safe = "".join(ch if ch.isalnum() or ch in "._-" else "_" for ch in agg_ob["name"])[:150]
    path = os.path.join(d, safe + ".json")
    doc = dict(property=pid, obligation=agg_ob["name"], function=rep["function"], kind=agg_ob["kind"], label=agg_ob["label"],
               source_line=agg_ob.get("line"), verdict=rep["verdict"], detail=rep["detail"], model=rep["model"],
               args=rep.get("args_repr"), observed=rep.get("observed"),
               solver_output="sat (counter-model above)" if rep["model"] else "obligation not discharged; solver gave no model",
               variant=agg_ob["variant"])
    with open(path, "w") as f:
        json.dump(doc, f, indent=1, default=str)
    return path


def replay_file(path):
    """./check <id> --replay FILE : re-execute a stored counter-example against /repo's current tree."""
    from .contracts import REGISTRY
    doc = json.load(open(path))
    pid = doc.get("property")
    if "function" not in doc or str(doc.get("obligation", "")).startswith("bounded:") or doc.get("kind") == "bounded":
        # file written by a bounded stand-in: re-run the stand-ins of the property against the current tree
        res = bounded_results(pid, "quick", 0, REGISTRY)
        lines = [v for b in res for v in b.get("violations", [])]
        print("replay %s: bounded stand-ins of %s re-evaluated on the current tree: %s" % (
            doc.get("obligation"), pid, "still failing" if lines else "no failure (not reproduced)"))
        for v in lines:
            print("  " + v)
        if not lines and doc.get("failures"):
            print("  recorded failures were: %s" % "; ".join(str(x) for x in doc["failures"][:3])[:600])
        return 1 if lines else 0
    if doc["function"] not in REGISTRY.contracts:
        print("replay %s: no contract named %s is loaded" % (doc.get("obligation"), doc["function"]))
        return 0
    if not doc.get("model"):
        # no counter-model was recorded (no-failing-input-found): re-verify the function and look at the same obligation
        from .verify import verify_variant
        c = REGISTRY.contracts[doc["function"]]
        variant = doc.get("variant") if doc.get("variant") in c.variants else next(iter(c.variants))
        r = verify_variant(c, variant, 20000)
        obs = [o for o in r["obligations"] if o["name"] == doc["obligation"]]
        bad = [o for o in r["obligations"] if o["status"] != "unsat"]
        if r["status"] != "ok":
            print("replay %s: the function is outside the verified subset on the current tree: %s" % (doc["obligation"], r["message"][:300]))
            return 1
        if obs and all(o["status"] == "unsat" for o in obs) and not bad:
            print("replay %s: discharged on the current tree (not reproduced)" % doc["obligation"])
            return 0
        if not obs and not bad:
            print("replay %s: all %d obligations of %s[%s] are discharged on the current tree (not reproduced)" % (
                doc["obligation"], len(r["obligations"]), doc["function"], variant))
            return 0
        print("replay %s: still not discharged on the current tree (%s); recorded reason: %s" % (
            doc["obligation"], ", ".join(sorted({"%s=%s" % (o["label"][:40], o["status"]) for o in (obs or bad)}))[:300], str(doc.get("detail"))[:300]))
        return 1
    c = REGISTRY.contracts[doc["function"]]
    agg = dict(name=doc["obligation"], kind=doc["kind"], label=doc["label"], model=doc["model"], variant=doc["variant"], line=doc.get("source_line"))
    rep = replay_obligation(c, agg, doc["property"])
    print("replay %s: %s — %s" % (doc["obligation"], rep["verdict"], rep["detail"]))
    print("  args: %s" % rep.get("args_repr"))
    print("  observed: %s" % rep.get("observed"))
    return 1 if rep["verdict"] == "confirmed" else 0


BOUNDED_HOOKS = {}


def bounded_results(pid, tier, seed, reg):
    out = []
    for fn in BOUNDED_HOOKS.get(pid, []):
        out.append(fn(tier, seed))
    return out


def known_open(pid, fid):
    """The entry of /verif/known_findings.json with this id, if it is listed as an open finding of the property."""
    for kf in load_known_findings():
        if kf.get("id") == fid and kf.get("property") == pid and kf.get("status", "open") == "open":
            return kf
    return None


def report_bounded_finding(out, pid, fid, text, detail):
    """A defect seen by a bounded stand-in: KNOWN-FINDING if the committed file lists it, else a VIOLATION with a replay file."""
    if known_open(pid, fid) is not None:
        out["known_lines"].append("KNOWN-FINDING: property=%s %s %s" % (pid, fid, text))
        return
    d = os.path.join(OUT, "replays", pid)
    os.makedirs(d, exist_ok=True)
    path = os.path.join(d, "bounded_%s.json" % fid)
    json.dump(dict(property=pid, obligation="bounded:%s" % fid, what=text, detail=detail), open(path, "w"), indent=1, default=str)
    out["violations"].append("VIOLATION property=%s replay=%s" % (pid, path))
