"""Mechanical backward slicing over the AST (DESIGN 1.6): keeps every statement that (transitively) defines a name the
criteria depend on, plus enclosing control statements; everything else is dropped and reported."""
import ast


def names_written(node):
    out = set()
    for n in ast.walk(node):
        if isinstance(n, ast.Name) and isinstance(n.ctx, (ast.Store, ast.Del)):
            out.add(n.id)
        elif isinstance(n, ast.Attribute) and isinstance(n.ctx, ast.Store):
            out.add(n.attr)
        elif isinstance(n, ast.AugAssign):
            t = n.target
            if isinstance(t, ast.Name):
                out.add(t.id)
            elif isinstance(t, ast.Attribute):
                out.add(t.attr)
        elif isinstance(n, ast.Call) and isinstance(n.func, ast.Attribute) and n.func.attr in (
                "append", "extend", "pop", "insert", "remove", "sort", "clear", "add", "update"):
            v = n.func.value
            if isinstance(v, ast.Name):
                out.add(v.id)
            elif isinstance(v, ast.Attribute):
                out.add(v.attr)
        elif isinstance(n, ast.Subscript) and isinstance(n.ctx, ast.Store):
            v = n.value
            while isinstance(v, ast.Subscript):
                v = v.value
            if isinstance(v, ast.Name):
                out.add(v.id)
            elif isinstance(v, ast.Attribute):
                out.add(v.attr)
    return out


def names_read(node):
    out = set()
    for n in ast.walk(node):
        if isinstance(n, ast.Name) and isinstance(n.ctx, ast.Load):
            out.add(n.id)
        elif isinstance(n, ast.Attribute) and isinstance(n.ctx, ast.Load):
            out.add(n.attr)
    return out


SIMPLE = (ast.Assign, ast.AugAssign, ast.AnnAssign, ast.Expr, ast.Return, ast.Assert, ast.Raise, ast.Pass, ast.Break, ast.Continue, ast.Delete)


def compute_slice(fn_node, criteria, keep_raises=True, keep_returns=True):
    """Returns the set of ids of statements to KEEP. criteria: names (variables / attribute names) of interest."""
    relevant = set(criteria)
    keep = set()
    changed = True

    def visit_block(stmts):
        nonlocal changed
        any_kept = False
        for st in stmts:
            kept = False
            if isinstance(st, SIMPLE):
                w = names_written(st)
                if (w & relevant) or (keep_raises and isinstance(st, ast.Raise)) or (keep_returns and isinstance(st, ast.Return)) \
                        or isinstance(st, (ast.Break, ast.Continue)):
                    kept = True
                    if id(st) not in keep:
                        keep.add(id(st))
                        changed = True
                    r = names_read(st)
                    if not r <= relevant:
                        relevant.update(r)
                        changed = True
            else:
                inner = False
                for fld in ("body", "orelse", "finalbody"):
                    blk = getattr(st, fld, None)
                    if blk:
                        inner = visit_block(blk) or inner
                for h in getattr(st, "handlers", []):
                    inner = visit_block(h.body) or inner
                if inner:
                    kept = True
                    if id(st) not in keep:
                        keep.add(id(st))
                        changed = True
                    hdr = set()
                    for fld in ("test", "iter", "target"):
                        e = getattr(st, fld, None)
                        if e is not None:
                            hdr |= names_read(e)
                    if isinstance(st, ast.For):
                        relevant.update(names_written(st.target))
                    if not hdr <= relevant:
                        relevant.update(hdr)
                        changed = True
            any_kept = any_kept or kept
        return any_kept

    while changed:
        changed = False
        visit_block(fn_node.body)
    return keep, relevant


def make_slice_drop(fn, criteria, **kw):
    """slice_drop predicate for a Contract: node -> True if the (top-level-function) statement is dropped."""
    from .engine import FuncSource
    src = FuncSource.of(fn)
    keep, relevant = compute_slice(src.node, criteria, **kw)

    def drop(node):
        return isinstance(node, ast.stmt) and id(node) not in keep

    drop.criteria = sorted(criteria)
    drop.relevant = sorted(relevant)
    return drop


def drop_before(fn, marker):
    """Suffix slice: drop every top-level statement before the first one whose source text contains `marker`.
    Sound for postconditions that must hold for an ARBITRARY state at the marker (the dropped prefix only
    establishes that state)."""
    from .engine import FuncSource
    src = FuncSource.of(fn)
    first = None
    for st in src.node.body:
        if marker in ast.unparse(st):
            first = st.lineno
            break
    if first is None:
        raise ValueError("slice marker %r not found in %s" % (marker, fn))

    def drop(node):
        return isinstance(node, ast.stmt) and node in src.node.body and node.lineno < first

    drop.marker = marker
    return drop


def drop_any(*preds):
    def drop(node):
        return any(p(node) for p in preds)
    return drop


def drop_matching(fn, *markers):
    """Drop statements (at any depth of the function itself) whose first source line contains one of the markers."""
    def drop(node):
        if not isinstance(node, ast.stmt):
            return False
        try:
            first = ast.unparse(node).splitlines()[0]
        except Exception:
            return False
        return any(m in first for m in markers)
    return drop


def drop_outside(fn, first_marker, last_marker):
    """Window slice: keep only the top-level statements from the first one whose text contains `first_marker` up to and including the
    first one (at or after it) whose text contains `last_marker`; everything before and after is dropped. Locals established by the
    dropped prefix are declared by the contract as (arbitrary) ghost parameters; the contract observes locals through `_local_<name>`."""
    from .engine import FuncSource
    src = FuncSource.of(fn)
    lo = hi = None
    for st in src.node.body:
        txt = ast.unparse(st)
        if lo is None and first_marker in txt:
            lo = st.lineno
        if lo is not None and hi is None and last_marker in txt:
            hi = st.end_lineno
            break
    if lo is None or hi is None:
        raise ValueError("window markers %r .. %r not found in %s" % (first_marker, last_marker, fn))

    def drop(node):
        return isinstance(node, ast.stmt) and node in src.node.body and not (lo <= node.lineno <= hi)

    drop.window = (first_marker, last_marker)
    return drop
