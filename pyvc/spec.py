"""Helpers for contract files: uninterpreted pure functions (axiomatised externals) usable both in the code
(as `externals` models) and in clauses; native fall-backs for replay."""
import z3

from .values import *  # noqa: F401,F403

_FUNCS = {}


def term_of(eng, v):
    v = eng.force(v)
    if isinstance(v, VInt):
        return v.t
    if isinstance(v, VBool):
        return v.t
    if isinstance(v, (VObj, VEnum)):
        return v.t
    if isinstance(v, VOpaque):
        return v.t
    if isinstance(v, VFloat):
        return v.t
    if isinstance(v, VNone):
        return z3.IntVal(-1)
    raise Unsupported("argument %r of an uninterpreted function" % (v,))


class Uninterp:
    """Pure, total, deterministic function of its arguments whose body is not verified here.
    native: the real implementation used when clauses are evaluated natively (replay)."""

    def __init__(self, name, ret=PyInt, native=None, axiom=None):
        self.name = name
        self.ret = ret
        self.native = native
        self.axiom = axiom  # callable(eng, args(list of V), result V) -> z3 Bool assumed at each application

    def __call__(self, *args, **kw):
        if self.native is None:
            raise NotImplementedError("uninterpreted %s has no native implementation" % self.name)
        return self.native(*args, **kw)

    def apply(self, eng, args, kwargs=None):
        ts = [term_of(eng, a) for a in args]
        if isinstance(self.ret, TInt):
            rs = z3.IntSort()
        elif isinstance(self.ret, TBool):
            rs = z3.BoolSort()
        else:
            raise Unsupported("Uninterp return type %r" % (self.ret,))
        key = (self.name, tuple(str(t.sort()) for t in ts), str(rs))
        f = _FUNCS.get(key)
        if f is None:
            f = z3.Function(self.name, *([t.sort() for t in ts] + [rs]))
            _FUNCS[key] = f
        r = f(*ts)
        if isinstance(self.ret, TInt):
            out = VInt(r, self.ret.np)
            if self.ret.lo is not None:
                eng.assume(r >= self.ret.lo)
            if self.ret.hi is not None:
                eng.assume(r <= self.ret.hi)
        else:
            out = VBool(r)
        if self.axiom is not None:
            eng.assume(self.axiom(eng, args, out))
        return out

    def model(self):
        """externals entry: callable(eng, args, kwargs)."""
        return lambda eng, args, kwargs: self.apply(eng, args, kwargs)


class SpecFn:
    """Opaque spec function over integers: an application is an uninterpreted-function term plus its definitional
    equation (the body, symbolically evaluated once per distinct argument tuple). Proofs that only need congruence
    (code composes the same reference steps as the spec) never look inside; range facts still follow from the body.
    Natively it is just the Python function."""

    def __init__(self, fn):
        self.fn = fn
        self.__name__ = fn.__name__
        self.__doc__ = fn.__doc__
        self.uf = None

    def __call__(self, *args, **kw):
        return self.fn(*args, **kw)

    def apply(self, eng, args, kwargs):
        if kwargs:
            return eng.call_function(self.fn, list(args), kwargs, force_inline=True)
        ivs = []
        for a in args:
            iv = eng.as_int(eng.force(a))
            if iv is None:
                return eng.call_function(self.fn, list(args), {}, force_inline=True)
            ivs.append(iv)
        if all(z3.is_int_value(z3.simplify(iv.t)) for iv in ivs):
            return eng.call_function(self.fn, list(args), {}, force_inline=True)
        if self.uf is None or self.uf.arity() != len(ivs):
            self.uf = z3.Function("spec$" + self.__name__, *([z3.IntSort()] * (len(ivs) + 1)))
        ts = [z3.simplify(iv.t) for iv in ivs]
        app = self.uf(*ts)
        key = ("specfn", self.__name__, tuple(t.get_id() for t in ts))
        hit = eng.memo.get(key)
        if hit is None or not all(x.eq(y) for x, y in zip(hit[0], ts)):
            eng.memo[key] = (ts, app)
            body = eng.call_function(self.fn, [VInt(t) for t in ts], {}, force_inline=True)
            bi = eng.as_int(eng.force(body))
            if bi is None:
                raise Unsupported("opaque spec function %s must return an int" % self.__name__)
            eng.assume(app == bi.t)
        return VInt(app)


def spec_fn(fn):
    return SpecFn(fn)
