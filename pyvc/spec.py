"""Helpers for contract files: uninterpreted pure functions (axiomatised externals) usable both in the code
(as `externals` models) and in clauses; native fall-backs for replay."""
import z3

from .values import *  # noqa: F401,F403

_FUNCS = {}


def term_of(eng, v):
    v = eng.force(v)
    if isinstance(v, VInt):
        return v.t
    if isinstance(v, VBool):
        return v.t
    if isinstance(v, (VObj, VEnum)):
        return v.t
    if isinstance(v, VOpaque):
        return v.t
    if isinstance(v, VFloat):
        return v.t
    if isinstance(v, VNone):
        return z3.IntVal(-(10**9))
    if isinstance(v, VStr):
        return z3.IntVal(intern_str(v.s))
    if isinstance(v, VStrSym):
        return v.t
    raise Unsupported("argument %r of an uninterpreted function" % (v,))


class Uninterp:
    """Pure, total, deterministic function of its arguments whose body is not verified here.
    native: the real implementation used when clauses are evaluated natively (replay)."""

    def __init__(self, name, ret=PyInt, native=None, axiom=None):
        self.name = name
        self.ret = ret
        self.native = native
        self.axiom = axiom  # callable(eng, args(list of V), result V) -> z3 Bool assumed at each application

    def __call__(self, *args, **kw):
        if self.native is None:
            raise NotImplementedError("uninterpreted %s has no native implementation" % self.name)
        return self.native(*args, **kw)

    def apply(self, eng, args, kwargs=None):
        ts = [term_of(eng, a) for a in args]
        if isinstance(self.ret, (TInt, TStr)):
            rs = z3.IntSort()
        elif isinstance(self.ret, TBool):
            rs = z3.BoolSort()
        elif isinstance(self.ret, TFloat):
            rs = z3.FPSort(11, 53) if self.ret.kind == "f64" else z3.FPSort(8, 24)
        else:
            raise Unsupported("Uninterp return type %r" % (self.ret,))
        key = (self.name, tuple(str(t.sort()) for t in ts), str(rs))
        f = _FUNCS.get(key)
        if f is None:
            f = z3.Function(self.name, *([t.sort() for t in ts] + [rs]))
            _FUNCS[key] = f
        r = f(*ts)
        if isinstance(self.ret, TStr):
            out = VStrSym(r)
        elif isinstance(self.ret, TInt):
            out = VInt(r, self.ret.np)
            if self.ret.lo is not None:
                eng.assume(r >= self.ret.lo)
            if self.ret.hi is not None:
                eng.assume(r <= self.ret.hi)
        elif isinstance(self.ret, TFloat):
            out = VFloat(r, self.ret.kind, self.ret.isnp)
        else:
            out = VBool(r)
        if self.axiom is not None:
            eng.assume(self.axiom(eng, args, out))
        return out

    def model(self):
        """externals entry: callable(eng, args, kwargs)."""
        return lambda eng, args, kwargs: self.apply(eng, args, kwargs)


class SpecFn:
    """Opaque spec function: an application is an uninterpreted-function term plus its definitional equation (the body,
    symbolically evaluated once per distinct argument tuple). Proofs that only need congruence (code composes the same
    reference steps as the spec) never look inside; range facts still follow from the body. Recursive spec functions are
    unfolded `unfold` levels per application (default 1). Natively it is just the Python function."""

    def __init__(self, fn, ret=None, unfold=1):
        self.fn = fn
        self.__name__ = fn.__name__
        self.__doc__ = fn.__doc__
        self.ret = ret
        self.unfold = unfold
        self.ufs = {}

    def __call__(self, *args, **kw):
        return self.fn(*args, **kw)

    def apply(self, eng, args, kwargs):
        if kwargs:
            return eng.call_function(self.fn, list(args), kwargs, force_inline=True)
        try:
            ts = [z3.simplify(term_of(eng, a)) for a in args]
        except Unsupported:
            return eng.call_function(self.fn, list(args), {}, force_inline=True)
        if self.ret is None and all(z3.is_int_value(t) for t in ts) and all(isinstance(eng.force(a), VInt) for a in args):
            return eng.call_function(self.fn, list(args), {}, force_inline=True)
        ret = self.ret or PyInt
        rs = z3.BoolSort() if isinstance(ret, TBool) else z3.IntSort()
        key = tuple(str(t.sort()) for t in ts)
        uf = self.ufs.get(key)
        if uf is None:
            uf = z3.Function("spec$" + self.__name__, *([t.sort() for t in ts] + [rs]))
            self.ufs[key] = uf
        app = uf(*ts)
        out = VBool(app) if isinstance(ret, TBool) else (VStrSym(app) if isinstance(ret, TStr) else VInt(app))
        depth = getattr(eng, "_spec_depth", {})
        eng._spec_depth = depth
        d = depth.get(self.__name__, 0)
        mkey = ("specfn", self.__name__, tuple(t.get_id() for t in ts))
        hit = eng.memo.get(mkey)
        if self.__name__ in getattr(getattr(eng, "root_contract", eng.contract), "opaque_specs", ()):
            return out      # this contract's proof uses the spec function by congruence only: never unfold its definition
        if d < self.unfold and (hit is None or not all(x.eq(y) for x, y in zip(hit[0], ts))):
            eng.memo[mkey] = (ts, app)
            depth[self.__name__] = d + 1
            try:
                body = eng.call_function(self.fn, list(args), {}, force_inline=True)
            finally:
                depth[self.__name__] = d
            body = eng.force(body)
            if isinstance(ret, TBool):
                eng.assume(app == eng.truth(body))
            else:
                eng.assume(app == term_of(eng, body))
        return out


def spec_fn(fn=None, **kw):
    if fn is None:
        return lambda f: SpecFn(f, **kw)
    return SpecFn(fn)


class HeapPred:
    """Opaque predicate over heap state (representation invariants). An application is an uninterpreted predicate of its
    object arguments AND of the current value of every heap array listed in `reads` (so any two applications in states that
    agree on those arrays are equal by congruence, with no quantifier reasoning). The definition is only unfolded in
    contracts that list the predicate under `reveal`; when unfolded, the executor checks that the body reads no heap array
    outside `reads` (otherwise the frame argument would be unsound)."""

    def __init__(self, fn, reads):
        self.fn = fn
        self.__name__ = fn.__name__
        self.reads = list(reads)
        self.uf = None

    def __call__(self, *args, **kw):
        return self.fn(*args, **kw)

    def keys(self, eng):
        out = []
        for r in self.reads:
            if r.startswith("map:"):
                from .values import MapCls
                tag = r[4:]
                mcls = next((m for m in MapCls._cache.values() if m.tag == tag), None)
                if mcls is None:
                    raise Unsupported("HeapPred reads unknown map class %s" % tag)
                for hk, s_ in eng._map_arrays(mcls):
                    out.append((hk, z3.ArraySort(z3.IntSort(), s_)))
                continue
            ft = eng.field_type(r)
            if isinstance(ft, TList):
                out.append((r + "#len", z3.IntSort()))
                for k, s_ in eng.leaf_sorts(ft.elem):
                    out.append(("%s#%s" % (r, k), z3.ArraySort(z3.IntSort(), s_)))
            else:
                for k, s_ in eng.leaf_sorts(ft):
                    out.append(("%s#%s" % (r, k), s_))
        return out

    def apply(self, eng, args, kwargs):
        ts = [term_of(eng, a) for a in args]
        keys = self.keys(eng)
        arrs = [eng.heap_arr(k, s_) for k, s_ in keys]
        if self.uf is None:
            self.uf = z3.Function("inv$" + self.__name__, *([t.sort() for t in ts] + [a.sort() for a in arrs] + [z3.BoolSort()]))
        app = self.uf(*(ts + arrs))
        if self.__name__ in getattr(eng.contract, "reveal", ()):
            mkey = ("heappred", self.__name__, tuple(t.get_id() for t in ts + arrs))
            if mkey not in eng.memo:
                eng.memo[mkey] = app
                before = set(eng.heap.keys()) | set(eng.heap_init.keys())
                tracked = []
                orig = eng.heap_arr

                def tracking(key, sort, _orig=orig):
                    tracked.append(key)
                    return _orig(key, sort)
                eng.heap_arr = tracking
                try:
                    body = eng.call_function(self.fn, list(args), {}, force_inline=True)
                finally:
                    del eng.heap_arr
                allowed = {k for k, _ in keys}
                bad = sorted(set(tracked) - allowed)
                if bad:
                    raise Unsupported("heap predicate %s reads %s which is not in its declared read set" % (self.__name__, bad))
                eng.assume(app == eng.truth(body))
        return VBool(app)


def heap_pred(reads):
    return lambda fn: HeapPred(fn, reads)
