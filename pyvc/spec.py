"""Helpers for contract files: uninterpreted pure functions (axiomatised externals) usable both in the code
(as `externals` models) and in clauses; native fall-backs for replay."""
import z3

from .values import *  # noqa: F401,F403

_FUNCS = {}


def term_of(eng, v):
    v = eng.force(v)
    if isinstance(v, VInt):
        return v.t
    if isinstance(v, VBool):
        return v.t
    if isinstance(v, (VObj, VEnum)):
        return v.t
    if isinstance(v, VOpaque):
        return v.t
    if isinstance(v, VFloat):
        return v.t
    if isinstance(v, VNone):
        return z3.IntVal(-1)
    raise Unsupported("argument %r of an uninterpreted function" % (v,))


class Uninterp:
    """Pure, total, deterministic function of its arguments whose body is not verified here.
    native: the real implementation used when clauses are evaluated natively (replay)."""

    def __init__(self, name, ret=PyInt, native=None, axiom=None):
        self.name = name
        self.ret = ret
        self.native = native
        self.axiom = axiom  # callable(eng, args(list of V), result V) -> z3 Bool assumed at each application

    def __call__(self, *args, **kw):
        if self.native is None:
            raise NotImplementedError("uninterpreted %s has no native implementation" % self.name)
        return self.native(*args, **kw)

    def apply(self, eng, args, kwargs=None):
        ts = [term_of(eng, a) for a in args]
        if isinstance(self.ret, TInt):
            rs = z3.IntSort()
        elif isinstance(self.ret, TBool):
            rs = z3.BoolSort()
        else:
            raise Unsupported("Uninterp return type %r" % (self.ret,))
        key = (self.name, tuple(str(t.sort()) for t in ts), str(rs))
        f = _FUNCS.get(key)
        if f is None:
            f = z3.Function(self.name, *([t.sort() for t in ts] + [rs]))
            _FUNCS[key] = f
        r = f(*ts)
        if isinstance(self.ret, TInt):
            out = VInt(r, self.ret.np)
            if self.ret.lo is not None:
                eng.assume(r >= self.ret.lo)
            if self.ret.hi is not None:
                eng.assume(r <= self.ret.hi)
        else:
            out = VBool(r)
        if self.axiom is not None:
            eng.assume(self.axiom(eng, args, out))
        return out

    def model(self):
        """externals entry: callable(eng, args, kwargs)."""
        return lambda eng, args, kwargs: self.apply(eng, args, kwargs)
