"""Driver: verify one (contract, variant) — explore all paths of the real function, collect obligations."""
import os
import time
import traceback

import z3

from . import smt
from .contracts import REGISTRY
from .engine import FuncSource, Shared, conc_bool
from .interp import Frame, Interp
from .values import *  # noqa: F401,F403

MAX_PATHS = 20000


def verify_variant(contract, variant_name, timeout_ms=10000, registry=None):
    registry = registry or REGISTRY
    types = contract.variants[variant_name]
    sh = Shared(contract.key, variant_name, contract.timeout_ms or timeout_ms)
    src = FuncSource.of(contract.fn)
    t0 = time.time()
    budget = float(os.environ.get("PYVC_VARIANT_BUDGET_S") or 0)
    sh.variant_deadline = t0 + (budget if budget > 0 else 40 * (contract.timeout_ms or timeout_ms) / 1000.0)
    worklist = [[]]
    status = "ok"
    message = ""
    feasible_exits = 0
    try:
        while worklist:
            prefix = worklist.pop()
            sh.paths += 1
            if sh.paths > MAX_PATHS:
                raise Unsupported("more than %d paths" % MAX_PATHS)
            eng = Interp(sh, contract, registry, prefix)
            feasible_exits += run_path(eng, contract, types, src)
            worklist.extend(eng.pending)
    except Unsupported as u:
        status = "unsupported"
        message = str(u)
    except RecursionError:
        status = "unsupported"
        message = "python recursion limit in the executor"
    except Exception:  # checker crash
        status = "error"
        message = traceback.format_exc()
    refuted = []
    undecided_obs = status == "ok" and any(
        (o.status == "unknown" and o.kind not in ("model_limit",))
        or (o.status == "sat" and o.kind in ("inv_entry", "inv_preserved", "hint", "lemma", "decreases", "frame"))
        for o in sh.obligations)
    if (status == "unsupported" or undecided_obs) and not getattr(contract, "no_refute", False):
        # The code left the verified subset through a loop that has no invariant (typically: the function was edited).
        # Bounded refutation: explore executions with at most K iterations per such loop. Obligations that fail there fail for
        # real inputs (their counter-models are replayed natively); nothing is counted as proved in this mode.
        sh2 = Shared(contract.key, variant_name, contract.timeout_ms or timeout_ms)
        sh2.refute_bound = 3
        worklist = [[]]
        try:
            t_end = time.time() + float(os.environ.get("PYVC_REFUTE_BUDGET_S", "90"))
            sh2.deadline = t_end
            while worklist and sh2.paths < 400 and time.time() < t_end:
                prefix = worklist.pop()
                sh2.paths += 1
                eng = Interp(sh2, contract, registry, prefix)
                run_path(eng, contract, types, src)
                worklist.extend(eng.pending)
        except (Unsupported, RecursionError) as e_:
            message += " | bounded refutation stopped: %s" % (str(e_)[:200],)
        except Exception:
            message += " | bounded refutation crashed: %s" % traceback.format_exc()[-400:]
        if undecided_obs:
            message = "bounded refutation after undecided obligations"
        for o in sh2.obligations:
            if o.status == "sat" and o.kind not in ("model_limit", "lemma", "inv_entry", "inv_preserved", "hint"):
                o.label = o.label + " (bounded refutation, <= 3 loop iterations)"
                refuted.append(o)
        sh.obligations.extend(refuted)
    if status == "ok" and sh.cover.get("requires") == "unsat":
        status = "error"
        message = "vacuous: requires of %s is unsatisfiable" % contract.key
    if status == "ok" and feasible_exits == 0:
        status = "error"
        message = "vacuous: no feasible exit (contradictory precondition or path conditions)"
    return dict(
        key=contract.key, variant=variant_name, status=status, message=message, paths=sh.paths, exits=sh.exits,
        obligations=[o.to_dict() for o in sh.obligations], secs=time.time() - t0,
        file=src.file, lines=[src.first_line, src.last_line], samples=sh.sample_texts,
        inlined=sorted(getattr(sh, "inlined", ())), modular=sorted(getattr(sh, "modular", ())),
        tabulated=sorted(getattr(sh, "tabulated", ())), dropped=sorted(getattr(sh, "dropped", ())),
        cover=sh.cover, feasible_exits=feasible_exits, assumed=sorted(getattr(sh, "assumed", ())),
    )


def run_path(eng, contract, types, src):
    """Run one path. Returns 1 if the path reached a feasible exit."""
    sh = eng.sh
    node = src.node
    a = node.args
    params = [p.arg for p in a.posonlyargs + a.args] + [p.arg for p in a.kwonlyargs]
    env = {}
    eng.frames.append(Frame(contract.fn, src, env, contract.fn.__globals__))
    eng.param_syms = {}
    try:
        try:
            # parameters
            defaults = {}
            nd = len(a.defaults)
            pos = [p.arg for p in a.posonlyargs + a.args]
            for i, p in enumerate(pos):
                di = i - (len(pos) - nd)
                if di >= 0:
                    defaults[p] = contract.fn.__defaults__[di]
            for p in params:
                if p in types:
                    env[p] = eng.fresh(types[p], p)
                elif p in defaults:
                    env[p] = eng.lift(defaults[p])
                else:
                    raise Unsupported("parameter %s of %s has no declared type" % (p, contract.key))
                eng.param_syms[p] = env[p]
            for p, t in types.items():
                if p not in env:  # ghost parameters
                    env[p] = eng.fresh(t, p)
                    eng.param_syms[p] = env[p]
            if contract.pre_hook:
                contract.pre_hook(eng)
            eng.frames[0].env = eng.clause_env(env)
            for cl in contract.requires + contract.variant_requires.get(sh.variant_name, []):
                eng.assume(eng.truth(eng.eval_clause(cl)))
            eng.frames[0].env = env
            if sh.cover.get("requires") != "sat":
                # vacuity guard: the precondition must be satisfiable on at least one path through its own evaluation
                # (a path on which it is contradictory is merely infeasible; no satisfiable path at all = vacuous contract, see below)
                r = smt.check_sat(eng.pc, sh.timeout_ms, want_model=False)[0]
                if r == "unsat":
                    sh.cover.setdefault("requires", "unsat")
                    raise PathEnd()
                sh.cover["requires"] = r
            eng.pc_entry_len = len(eng.pc)
            eng.env0 = eng.clause_env(env)
            eng.alloc0 = eng.alloc_term()
            eng.heap0 = dict(eng.heap)
            eng.lists0 = eng.snapshot_lists()
            outcome = None
            try:
                eng.exec_block(node.body)
                outcome = ("return", NONE)
            except ReturnSignal as r:
                outcome = ("return", r.value)
            except PyRaise as e:
                outcome = ("raise", e)
            except (BreakSignal, ContinueSignal):
                raise Unsupported("break/continue outside loop")
        except PathEnd:
            return 0
        if not eng.feasible():
            return 0
        try:
            return post_state(eng, contract, src, outcome)
        except PyRaise as e:
            # a clause is not well defined on this path (its evaluation raises). First make sure the path exists at all: the path
            # solver prunes with a short time-out, so an infeasible path can get here; decide it with the obligation budget.
            try:
                if smt.check_sat(eng.pc, sh.timeout_ms, want_model=False)[0] == "unsat":
                    return 0
            except Exception:
                pass
            # feasible (or undecided) path on which the clause raises: undecided, never a crash
            from .engine import Obligation
            ob = Obligation(sh.func_name, sh.variant_name, "clause_defined", "clause evaluation raised %s" % e.cls.__name__, e.line)
            ob.status = "unknown"
            ob.backend = "executor"
            sh.obligations.append(ob)
            return 1
    finally:
        eng.frames.clear()


def post_state(eng, contract, src, outcome):
    sh = eng.sh
    if True:
        if outcome[0] == "return":
            sh.exits["return"] = sh.exits.get("return", 0) + 1
            env = eng.frames[0].env
            # use entry values of parameters in clauses unless re-bound: clauses refer to parameters by name;
            # python code may have re-assigned them, so restore the entry bindings for clause evaluation
            # clauses see the entry values of the parameters, `result`, and the contract file's names only
            # (locals of the function must not shadow spec functions)
            post_env = {}
            for p, v in eng.env0.items():
                post_env["_final_" + p] = env.get(p, v)
                post_env[p] = v
            post_env["result"] = eng.math_view(outcome[1])
            if contract.slice_drop is not None:
                # window / suffix slices observe the locals they compute
                for lname, lval in env.items():
                    if isinstance(lname, str) and not lname.startswith("_") and ("_local_" + lname) not in post_env:
                        post_env["_local_" + lname] = lval
            for gname in contract.ghost_results:
                if gname in env:
                    post_env[gname] = env[gname]
            eng.frames[0].env = post_env
            for i, (exc, when) in enumerate(contract.raises):
                if when is None:
                    continue  # may raise under conditions the contract does not pin down
                eng.prove(z3.Not(eng.truth(eng.eval_clause(when))), "raises_iff", "no %s => not(%s)" % (exc.__name__, when), src.first_line, assume_after=False)
            frame_obligations(eng, contract, src)
            for i, cl in enumerate(contract.ensures + contract.variant_ensures.get(sh.variant_name, [])):
                # earlier postconditions serve as lemmas for later ones (each is proved before it is assumed)
                is_lemma = cl.startswith("lemma:")
                if is_lemma and getattr(sh, "refute_bound", 0):
                    continue       # lemmas are proof steps about the current representation, not part of the property
                try:
                    goal = eng.eval_clause(cl)
                except Unsupported:
                    if getattr(sh, "refute_bound", 0):
                        continue   # proof-only clause (ghost terms) cannot be evaluated in bounded refutation mode
                    raise
                eng.prove(goal, "lemma" if is_lemma else "ensures", "ensures[%d]" % i, src.first_line, assume_after=not getattr(sh, "refute_bound", 0))
            return 1
        else:
            e = outcome[1]
            sh.exits["raise " + e.cls.__name__] = sh.exits.get("raise " + e.cls.__name__, 0) + 1
            env = eng.frames[0].env
            post_env = dict(eng.env0)
            eng.frames[0].env = post_env
            whens = [w for (exc, w) in contract.raises if isinstance(e.cls, type) and issubclass(e.cls, exc)]
            if whens and any(w is None for w in whens):
                return 1
            if whens:
                g = z3.Or([eng.truth(eng.eval_clause(w)) for w in whens])
                eng.prove(g, "raises_when", "%s only when specified" % e.cls.__name__, e.line, assume_after=False)
                return 1
            eng.prove(z3.BoolVal(False), "no_exception", "%s" % (e.cls.__name__,), e.line, assume_after=False)
            return 0


def aggregate(results):
    """Group path-level VCs into named obligations. status: worst of its VCs."""
    rank = {"unsat": 0, "unknown": 1, "sat": 2}
    agg = {}
    for r in results:
        for o in r["obligations"]:
            a = agg.setdefault(o["name"], dict(name=o["name"], func=o["func"], variant=o["variant"], kind=o["kind"], label=o["label"],
                                               vcs=0, status="unsat", backends={}, secs=0.0, model=None, line=o["line"], text=None))
            a["vcs"] += 1
            a["secs"] += o["secs"]
            a["backends"][o["backend"]] = a["backends"].get(o["backend"], 0) + 1
            if rank[o["status"]] > rank[a["status"]]:
                a["status"] = o["status"]
            if o["status"] == "sat" and a["model"] is None:
                a["model"] = o["model"]
                a["line"] = o["line"]
            if o.get("text") and a["text"] is None:
                a["text"] = o["text"]
    return agg


def frame_obligations(eng, contract, src):
    """Everything on the heap that the contract does not list under modifies / modifies_maps / modifies_lists is unchanged:
    callers rely on this when they use the contract instead of the body."""
    mods = set(m for m in contract.modifies if "." not in m) | set(contract.ghost_fields)
    obj_cells = {}   # field -> [object terms] for "obj.field" entries (evaluated in the entry state)
    if any("." in m for m in contract.modifies):
        saved_heap, saved_lists = eng.heap, eng.lists
        eng.heap = dict(eng.heap0)
        eng.lists = eng.snapshot_lists()
        try:
            for m in contract.modifies:
                if "." in m:
                    oexpr, fname = m.rsplit(".", 1)
                    obj_cells.setdefault(fname, []).append(eng.force(eng.eval_clause(oexpr)).t)
        finally:
            eng.heap, eng.lists = saved_heap, saved_lists
    # declared map cells (evaluated in the entry state)
    cells = []
    all_mm = contract.modifies_maps + contract.variant_modifies_maps.get(eng.sh.variant_name, [])
    if all_mm:
        saved_heap, saved_lists = eng.heap, eng.lists
        eng.heap = dict(eng.heap0)
        eng.lists = eng.snapshot_lists()
        try:
            for mexpr, kexpr in all_mm:
                mobj = eng.force(eng.eval_clause(mexpr))
                cells.append((mobj, eng.map_key(eng.eval_clause(kexpr))))
        finally:
            eng.heap, eng.lists = saved_heap, saved_lists
    for key, arr in list(eng.heap.items()):
        init = eng.heap0.get(key)
        if init is None:
            init = eng.heap_init.get(key)
        if init is None or arr.eq(init):
            continue
        field = key.split("#")[0]
        if field in mods:
            continue
        r = z3.Int(eng.fresh_name("fr"))
        fresh_obj = r >= eng.alloc0     # objects allocated by this call are not part of the caller's frame
        if key.startswith("map$"):
            k = z3.Int(eng.fresh_name("fk"))
            mcls_cells = [z3.And(r == m.t, k == kk) for (m, kk) in cells if key.startswith("map$%s#" % m.cls.tag)]
            # maps that are ghost fields' targets are identified by reference: cells of maps stored in ghost fields are free
            ghost_maps = []
            for gf in contract.ghost_fields:
                ft = eng.registry.field_types.get(gf)
                if isinstance(ft, TMap) and key.startswith("map$%s#" % ft.cls.tag):
                    garr = eng.heap0.get(gf + "#e")
                    if garr is None:
                        garr = eng.heap_init.get(gf + "#e")
                    if garr is not None:
                        o = z3.Int(eng.fresh_name("fo"))
                        ghost_maps.append(z3.Exists([o], z3.Select(garr, o) == r))
            same = z3.Select(z3.Select(arr, r), k) == z3.Select(z3.Select(init, r), k)
            goal = z3.ForAll([r, k], z3.Or(mcls_cells + ghost_maps + [fresh_obj, same]))
        elif field in obj_cells:
            goal = z3.ForAll([r], z3.Or([r == o for o in obj_cells[field]] + [fresh_obj, z3.Select(arr, r) == z3.Select(init, r)]))
        else:
            goal = z3.ForAll([r], z3.Or(fresh_obj, z3.Select(arr, r) == z3.Select(init, r)))
        eng.prove(goal, "frame", "%s unchanged (not in modifies)" % key, src.first_line, assume_after=False)
