"""Contract registry for pyvc. Contract files in /verif/contracts use `contract(...)` to attach
requires / ensures / raises / loop invariants to the real functions of /repo (sidecar, nothing in /repo is edited)."""
import ast
import importlib
import inspect

from .values import *  # noqa: F401,F403


class Contract:
    def __init__(self, key, fn, **kw):
        self.key = key
        self.fn = fn
        self.props = set(kw.pop("props", []))
        variants = kw.pop("variants", None)
        if variants is None:
            variants = {"default": kw.pop("types", {})}
        self.variants = variants
        self.requires = list(kw.pop("requires", []))
        self.variant_requires = dict(kw.pop("variant_requires", {}))
        self.ensures = list(kw.pop("ensures", []))
        self.variant_ensures = dict(kw.pop("variant_ensures", {}))   # extra postconditions per variant
        self.raises = list(kw.pop("raises", []))  # (ExceptionClass, "when clause")
        self.returns = kw.pop("returns", None)
        self.loops = dict(kw.pop("loops", {}))
        self.inline = set(kw.pop("inline", []))
        self.always_inline = kw.pop("always_inline", False)
        self.externals = dict(kw.pop("externals", {}))
        self.modifies = list(kw.pop("modifies", []))
        self.modifies_lists = list(kw.pop("modifies_lists", []))
        self.allocates = kw.pop("allocates", False)
        self.bindings = dict(kw.pop("bindings", {}))
        self.max_shift = kw.pop("max_shift", 64)
        self.slice_drop = kw.pop("slice_drop", None)
        self.ghost_after = dict(kw.pop("ghost_after", {}))
        self.build = kw.pop("build", None)
        self.timeout_ms = kw.pop("timeout_ms", None)
        self.assumptions = list(kw.pop("assumptions", []))
        self.lemma = kw.pop("lemma", False)
        self.pre_hook = kw.pop("pre_hook", None)
        self.replay = kw.pop("replay", True)
        self.origin = kw.pop("origin", "")
        self.verify = kw.pop("verify", True)  # False: contract is only *assumed* at call sites (trusted)
        self.xcheck = kw.pop("xcheck", None)
        self.sorted_mode = kw.pop("sorted_mode", "permutation")
        # proof hints: {"before:<first source line of a statement>": [clauses]}: each clause is PROVED at that program
        # point and only then assumed (intermediate assertions, as in Dafny/VeriFast); keyed by text, not line number
        self.hints = dict(kw.pop("hints", {}))
        # ghost results: names (starting with _ghost) set by the executor while running the body (e.g. the insertion
        # index of sorted()); usable in ensures; at modular call sites they are fresh existential witnesses
        self.ghost_results = dict(kw.pop("ghost_results", {}))
        # ghost code: {"after:<first source line of a statement>": ["ghost statement", ...]}; ghost statements may only
        # assign to fields / map entries listed in ghost_fields (checked), so they cannot influence the real computation
        self.ghost = dict(kw.pop("ghost", {}))
        self.ghost_fields = set(kw.pop("ghost_fields", []))
        # frame of modular calls on heap maps: [(map expression, key expression)] evaluated in the pre-state
        self.modifies_maps = list(kw.pop("modifies_maps", []))
        self.variant_modifies_maps = dict(kw.pop("variant_modifies_maps", {}))    # additional map cells per variant
        # names of opaque heap predicates (pyvc.spec.HeapPred) whose definition this contract's proof may unfold
        self.reveal = set(kw.pop("reveal", []))
        # {callee key: {ghost parameter of the callee: clause expression over this function's parameters / ghosts}}: instantiates the
        # callee's universally quantified ghost parameters at modular calls (default: the postcondition is assumed for all values)
        self.ghost_args = dict(kw.pop("ghost_args", {}))
        # {local variable: TMap(...)}: a local `x = dict()` / `x = {}` is modelled as a heap map of that type
        self.local_types = dict(kw.pop("local_types", {}))
        # {name: types}: additional variants that are only MATCHED at call sites (never verified themselves): the symbolic form of a
        # parameter whose finite domain is covered exhaustively by the verified variants (e.g. shift = 0..62 one variant each)
        self.call_variants = dict(kw.pop("call_variants", {}))
        # general float * and / of two unknown operands become uninterpreted functions (see Engine.fp_uf)
        self.float_abstract = kw.pop("float_abstract", False)
        # names of @spec_fn functions whose definition this contract's proof never unfolds (used by congruence only)
        self.opaque_specs = set(kw.pop("opaque_specs", []))
        self.mixed_int_merge = kw.pop("mixed_int_merge", False)
        self.tier = kw.pop("tier", "quick")      # "thorough": verified only by the thorough tier (long-running compositions)
        if kw:
            raise TypeError("unknown contract options %r for %s" % (list(kw), key))
        self._clauses = {}

    def parse_clause(self, text):
        t = self._clauses.get(text)
        if t is None:
            src_ = text.strip()
            if src_.startswith("lemma:"):
                src_ = src_[6:].strip()
            t = ast.parse(src_, mode="eval").body
            self._clauses[text] = t
        return t


class Registry:
    def __init__(self):
        self.contracts = {}
        self.by_fn = {}
        self.field_types = {}
        self.class_fields = {}
        self.struct_classes = set()
        self.isinstance_models = {}
        self.order = []

    def add(self, c):
        if c.key in self.contracts:
            raise ValueError("duplicate contract %s" % c.key)
        self.contracts[c.key] = c
        self.order.append(c.key)
        fn = inspect.unwrap(c.fn) if hasattr(c.fn, "__wrapped__") else c.fn
        self.by_fn[id(fn)] = c

    def declare_class(self, cls, **fields):
        """Heap-allocated class with the given field types (fields are keyed by name across classes)."""
        self.class_fields[cls] = dict(fields)
        for f, t in fields.items():
            old = self.field_types.get(f)
            sig = lambda x: (repr(x), getattr(x, "lo", None), getattr(x, "hi", None), repr(getattr(x, "members", None)))
            if old is not None and sig(old) != sig(t):
                # heap fields are keyed by name across classes: bounds / member restrictions of one class would silently become
                # assumptions about every object with a field of that name
                raise ValueError("field %s declared with two types: %r %r vs %r %r" % (f, old, sig(old), t, sig(t)))
            self.field_types[f] = t

    def declare_struct(self, cls):
        self.struct_classes.add(cls)


REGISTRY = Registry()


def resolve(key):
    modname, qual = key.split(":")
    mod = importlib.import_module(modname)
    obj = mod
    for part in qual.split("."):
        obj = inspect.getattr_static(obj, part) if inspect.isclass(obj) else getattr(obj, part)
        if isinstance(obj, (staticmethod, classmethod)):
            obj = obj.__func__
    if hasattr(obj, "__wrapped__"):
        obj = inspect.unwrap(obj)
    return obj


def contract(key, **kw):
    """Register a contract for the real function named by `key` ("package.module:Qual.name")."""
    fn = kw.pop("fn", None) or resolve(key)
    frame = inspect.currentframe().f_back
    b = dict(frame.f_globals)
    b.update(kw.pop("bindings", {}))
    c = Contract(key, fn, bindings=b, origin=frame.f_globals.get("__name__", ""), **kw)
    REGISTRY.add(c)
    return c


def implies(a, b):
    return (not a) or bool(b)


def bitlen(n):
    return int(n).bit_length()


REPLAY_UNIVERSE = None   # set by the native replay: a finite window of integers around the values of the counter-example


def forall_int(fn):
    """Clause-level quantifier over all integers: forall_int(lambda k: P(k)). Natively it can only be REFUTED: during a
    replay it is evaluated over a finite window of integers around the counter-example's values."""
    if REPLAY_UNIVERSE is None:
        raise NotImplementedError("forall_int is a proof-only quantifier")
    return all(fn(k) for k in REPLAY_UNIVERSE)


def items_of(m):
    """The (key, value) pairs of a dict as a list, in the order the code iterates over them."""
    return list(m.items())


def enum_key(member):
    """Integer key under which an enum member is stored in the executor's heap maps (proof-only)."""
    raise NotImplementedError("enum_key is proof-only")


def forall_enum(cls, fn):
    """forall_enum(EnumClass, lambda m: P(m)): P holds for every member (natively: all(...))."""
    from .values import enum_members
    return all(fn(m) for m in enum_members(cls))


def sorted_perm(j):
    """Ghost (proof-only): index in the input of the element that the most recent sorted() call put at output index j."""
    raise NotImplementedError("proof-only")


def sorted_perm_inv(i):
    """Ghost (proof-only): output index at which the most recent sorted() call put input element i."""
    raise NotImplementedError("proof-only")
