"""Property-level runner: loads contract files, verifies every (function, variant) that serves the property
in a process pool, replays counter-models natively, applies known findings, writes evidence, prints the verdict.

Exit codes: 0 held | 1 VIOLATION | 2 undecided | 3 checker error
"""
import hashlib
import importlib
import json
import multiprocessing as mp
import os
import sys
import time
import traceback

ROOT = os.path.dirname(os.path.dirname(os.path.abspath(__file__)))
OUT = os.environ.get("VERIF_OUT_DIR") or ROOT   # developer override (seed sweeps): where evidence / replays are written
sys.path.insert(0, ROOT)

CONTRACT_MODULES = [
    "contracts.c_numeric_util",
    "contracts.c_scaling",
]


def load_contracts():
    from pyvc.contracts import REGISTRY
    import glob
    mods = sorted(os.path.basename(p)[:-3] for p in glob.glob(os.path.join(ROOT, "contracts", "c_*.py")))
    for m in mods:
        importlib.import_module("contracts." + m)
    for m in filter(None, os.environ.get("PYVC_EXTRA_CONTRACTS", "").split(",")):
        importlib.import_module(m)      # developer: work-in-progress contract files that the registered checks do not load
    return REGISTRY


def _task(args):
    key, variant, timeout_ms = args
    try:
        from pyvc.contracts import REGISTRY
        from pyvc.verify import verify_variant
        from pyvc import smt
        c = REGISTRY.contracts[key]
        r = verify_variant(c, variant, timeout_ms)
        r["solver_stats"] = {k: list(v) for k, v in smt.STATS.items()}
        for k in smt.STATS:
            smt.STATS[k] = [0, 0.0]
        return r
    except Exception:
        return dict(key=key, variant=variant, status="error", message=traceback.format_exc(), obligations=[], paths=0,
                    exits={}, secs=0.0, file="", lines=[0, 0], samples=[], inlined=[], modular=[], tabulated=[],
                    dropped=[], cover={}, feasible_exits=0, solver_stats={}, assumed=[])


def sha256_of_lines(path, lo, hi):
    try:
        with open(path) as f:
            lines = f.readlines()[lo - 1:hi]
        return hashlib.sha256("".join(lines).encode()).hexdigest()
    except OSError:
        return ""


def sha_of_key(key):
    """sha256 of the current source text of the function named module:Qual.name ('' if it cannot be resolved)."""
    try:
        import inspect
        from pyvc.contracts import resolve
        fn = resolve(key)
        return hashlib.sha256(inspect.getsource(fn).encode()).hexdigest()
    except Exception:
        return ""


def contract_sha(c):
    """fingerprint of the clauses of a contract: an inventory entry recorded for other clauses is stale and is ignored"""
    txt = repr((c.requires, sorted(c.variant_requires.items()), c.ensures, sorted(c.variant_ensures.items()),
                sorted((k, repr(sorted(v.items(), key=str))) for k, v in c.loops.items()), sorted(c.hints.items()), sorted(c.ghost.items()), c.raises and [(e.__name__, w) for e, w in c.raises]))
    return hashlib.sha256(txt.encode()).hexdigest()[:16]


def run_property(pid, tier="quick", seed=0, jobs=None, only=None):
    t0 = time.time()
    import shutil
    shutil.rmtree(os.path.join(OUT, "replays", pid), ignore_errors=True)
    reg = load_contracts()
    timeout_ms = 20000 if tier == "quick" else 120000
    tasks = []
    for key in reg.order:
        c = reg.contracts[key]
        if pid not in c.props or not c.verify:
            continue
        if c.tier == "thorough" and tier != "thorough":
            continue
        if only and only not in key:
            continue
        for v in c.variants:
            tasks.append((key, v, timeout_ms))
    if not tasks:
        print("checker error: no contracts serve property %s" % pid)
        return 3, None
    jobs = jobs or min(16, len(tasks))
    ctx = mp.get_context("fork")
    with ctx.Pool(jobs) as pool:
        results = pool.map(_task, tasks, chunksize=1)
    return finish(pid, tier, seed, reg, results, time.time() - t0)


def finish(pid, tier, seed, reg, results, wall):
    from pyvc.verify import aggregate
    from pyvc import replay as rp
    agg = aggregate(results)
    errors = [r for r in results if r["status"] == "error"]
    unsupported = [r for r in results if r["status"] == "unsupported"]
    failed = [a for a in agg.values() if a["status"] == "sat"]
    unknown = [a for a in agg.values() if a["status"] == "unknown"]
    # model limits and failed lemmas (proof steps tied to the current representation) make the run undecided, not a violation
    model_limit_failed = [a for a in failed if a["kind"] in ("model_limit", "lemma")]
    failed = [a for a in failed if a["kind"] not in ("model_limit", "lemma")]
    known = rp.load_known_findings()
    # ---- baseline inventory (vacuity / shrinkage guard)
    inv_path = os.path.join(ROOT, "baseline", "obligations.json")
    inventory = {}
    if os.path.exists(inv_path) and not os.environ.get("PYVC_NO_INVENTORY"):
        inventory = json.load(open(inv_path)).get(pid, {})
        # entries recorded for a different version of the contract's clauses are stale: ignored (regenerate with tools/write_inventory.sh)
        stale = [fv for fv, ent in inventory.items()
                 if ent.get("contract_sha") and fv.split("[")[0] in reg.contracts and ent["contract_sha"] != contract_sha(reg.contracts[fv.split("[")[0]])]
        for fv in stale:
            del inventory[fv]
        if stale:
            print("note: %d inventory entries are stale (contract clauses changed since they were recorded) and were ignored" % len(stale))
    inv_problems = []
    by_fv = {}
    for a in agg.values():
        by_fv.setdefault("%s[%s]" % (a["func"], a["variant"]), set()).add(a["name"])
    for r in results:
        fv = "%s[%s]" % (r["key"], r["variant"])
        h = sha256_of_lines(r["file"], r["lines"][0], r["lines"][1])
        ent = inventory.get(fv)
        if ent and ent.get("sha256") == h:
            # executor-internal side obligations (model_limit: chosen bit widths etc.) depend on what the time-limited path solver can
            # prune, so their presence may vary between runs: not part of the shrinkage guard
            missing = {o for o in set(ent["obligations"]) - by_fv.get(fv, set()) if ":model_limit:" not in o}
            if missing and r["status"] == "ok":
                inv_problems.append("%s: %d obligations of the baseline inventory were not generated (%s ...)" % (fv, len(missing), sorted(missing)[0]))
    # ---- which (function, variant)s were verified against CHANGED source text (w.r.t. the committed baseline inventory)?
    changed_fv = {}
    for r in results:
        fv = "%s[%s]" % (r["key"], r["variant"])
        ent = inventory.get(fv)
        if not ent:
            continue
        h = sha256_of_lines(r["file"], r["lines"][0], r["lines"][1])
        why = []
        if ent.get("sha256") and h and ent["sha256"] != h:
            why.append(r["key"])
        for dep, dsha in (ent.get("deps") or {}).items():
            cur = sha_of_key(dep)
            if cur and dsha and cur != dsha:
                why.append(dep)
        if why:
            changed_fv[fv] = why
    violations = []
    known_lines = []
    undecided_msgs = []
    lost = []   # obligations discharged on the baseline that are no longer discharged for a CHANGED function (no counter-model)
    for a in list(unknown):
        fv = "%s[%s]" % (a["func"], a["variant"])
        if fv in changed_fv and a["name"] in set(inventory[fv]["obligations"]):
            unknown.remove(a)
            lost.append((a, "solver answered 'unknown' within the budget (z3 / cvc5 portfolio); changed source: %s" % ", ".join(changed_fv[fv])))
    for a in list(model_limit_failed):
        fv = "%s[%s]" % (a["func"], a["variant"])
        if a["kind"] == "lemma" and fv in changed_fv and a["name"] in set(inventory[fv]["obligations"]):
            model_limit_failed.remove(a)
            lost.append((a, "proof step (lemma) of the baseline proof is refuted after the change; changed source: %s" % ", ".join(changed_fv[fv])))
    for r in list(unsupported):
        fv = "%s[%s]" % (r["key"], r["variant"])
        if fv in changed_fv and inventory[fv]["obligations"]:
            have = {o["name"] for o in r["obligations"] if o["status"] == "sat"}
            if have:
                unsupported.remove(r)
                continue      # the bounded refutation already produced counter-models for this function
            unsupported.remove(r)
            a = dict(name="%s:not_generated" % fv, func=r["key"], variant=r["variant"], kind="not_generated",
                     label="%d obligations discharged on the baseline can no longer be generated" % len(inventory[fv]["obligations"]),
                     model=None, line=r["lines"][0])
            lost.append((a, "the changed function left the verified subset: %s; changed source: %s" % (r["message"][:300], ", ".join(changed_fv[fv]))))
    for a, reason in lost:
        rep = dict(function=a["func"], obligation=a["name"], kind=a["kind"], label=a["label"], line=a.get("line"), model=None,
                   verdict="no_model", detail=reason, args_native=None)
        path = rp.write_replay(pid, a, rep)
        violations.append("VIOLATION property=%s replay=%s no-failing-input-found" % (pid, path))
    for a in failed:
        c = reg.contracts[a["func"]]
        rep = rp.replay_obligation(c, a, pid)
        kf = rp.match_known(known, pid, a, rep)
        if kf is not None:
            known_lines.append("KNOWN-FINDING: property=%s %s" % (pid, kf["what"]))
            a["known_finding"] = kf["id"]
            continue
        if rep["verdict"] == "spurious":
            # the counter-model does not satisfy the precondition natively / does not fail natively:
            # the obligation still failed, report without input
            pass
        path = rp.write_replay(pid, a, rep)
        suffix = "" if rep["verdict"] == "confirmed" else " no-failing-input-found"
        violations.append("VIOLATION property=%s replay=%s%s" % (pid, path, suffix))
    for a in unknown:
        undecided_msgs.append("undecided: %s (solver returned unknown within budget)" % a["name"])
    for a in model_limit_failed:
        undecided_msgs.append("undecided: %s (outside the executor's model: %s)" % (a["name"], a["label"]))
    for r in unsupported:
        undecided_msgs.append("undecided: %s[%s] left the verified subset: %s" % (r["key"], r["variant"], r["message"]))
    n_ob = len(agg)
    n_dis = sum(1 for a in agg.values() if a["status"] == "unsat")
    # ---- evidence
    backends = {}
    solver_secs = {}
    for r in results:
        for k, (n, s) in r.get("solver_stats", {}).items():
            backends[k] = backends.get(k, 0) + n
            solver_secs[k] = round(solver_secs.get(k, 0.0) + s, 3)
    simp = sum(a["backends"].get("simplifier", 0) for a in agg.values())
    funcs = []
    seen = set()
    for r in results:
        if r["key"] in seen:
            continue
        seen.add(r["key"])
        funcs.append(dict(function=r["key"], file=r["file"], lines=r["lines"],
                          sha256=sha256_of_lines(r["file"], r["lines"][0], r["lines"][1]),
                          variants=[x["variant"] for x in results if x["key"] == r["key"]],
                          paths=sum(x["paths"] for x in results if x["key"] == r["key"])))
    samples = []
    for a in list(agg.values()):
        if a.get("text") and len(samples) < 5:
            samples.append(dict(obligation=a["name"], status=a["status"], vc=a["text"]))
    if not samples:
        samples = [dict(obligation=a["name"], status=a["status"]) for a in list(agg.values())[:5]]
    assumptions = set()
    trusted = set([
        "pyvc symbolic executor (this repository's /verif/pyvc): Python int = unbounded Z; // and % floor semantics; "
        "numpy fixed-width scalars wrap, NEP-50 promotion; IEEE-754 binary32/64 via z3 FloatingPoint, RNE",
        "z3 4.x/5.x (Python API), cvc5 1.0.3 and /usr/bin/z3 4.8.12 as fall-back on unknown",
        "CPython 3.12 `ast`/`inspect` give the source text the interpreter runs (checked: sha256 of the extracted lines is recorded)",
    ])
    for r in results:
        c = reg.contracts[r["key"]]
        for s in c.assumptions:
            assumptions.add("%s: %s" % (r["key"], s))
        for s in r.get("assumed", []):
            assumptions.add("%s: %s" % (r["key"], s))
        for t in r.get("tabulated", []):
            trusted.add("finite-domain native tabulation of pure enum method %s (real code executed on every member)" % t)
        for m in r.get("modular", []):
            mc = reg.contracts.get(m)
            if mc is not None and not mc.verify:
                assumptions.add("contract of %s is ASSUMED (trusted, not verified): %s" % (m, "; ".join(mc.ensures)[:300]))
        for d in r.get("dropped", []):
            assumptions.add("%s: slice drops statement at line %s (%s)" % (r["key"], d[0], d[1]))
        for e_ in c.externals:
            assumptions.add("%s: external %s modelled by an axiomatised stub" % (r["key"], e_))
    bounded = rp.bounded_results(pid, tier, seed, reg)
    # ---- native sampling cross-check of the proved contracts (thorough tier, or PYVC_XCHECK=1)
    xc = []
    if tier == "thorough" or os.environ.get("PYVC_XCHECK"):
        from pyvc import xcheck
        t_x = time.time()
        for r in results:
            if r["status"] != "ok" or time.time() - t_x > 600:
                continue
            c = reg.contracts[r["key"]]
            try:
                xc.append(xcheck.cross_check(c, r["variant"], seed))
            except Exception:
                xc.append(dict(function=r["key"], variant=r["variant"], sampled=0, accepted=0, failures=[], skipped="cross-check crashed: %s" % traceback.format_exc()[-200:]))
    xc_fail = [x for x in xc if x["failures"]]
    status_code = 0
    if errors or inv_problems or xc_fail:
        status_code = 3
    elif violations:
        status_code = 1
    elif undecided_msgs:
        status_code = 2
    for b in bounded:
        if b.get("violations"):
            for vline in b["violations"]:
                violations.append(vline)
            if status_code in (0, 2):
                status_code = 1
        for kl in b.get("known_lines", []):
            known_lines.append(kl)
    ev = dict(
        property_id=pid, tier=tier, seed=int(seed), level="proof",
        coverage=dict(
            obligations=n_ob, discharged=n_dis,
            path_vcs=sum(a["vcs"] for a in agg.values()),
            checker_cmd="./check %s --tier %s" % (pid, tier),
            trusted_base=sorted(trusted),
            backends=dict(queries=backends, solver_seconds=solver_secs, discharged_by_simplifier=simp),
            functions_under_contract=funcs,
            samples=samples,
            inlined_callees=sorted({x for r in results for x in r.get("inlined", [])}),
            modular_callees=sorted({x for r in results for x in r.get("modular", [])}),
            bounded=[{k: v for k, v in b.items() if k not in ("violations", "known_lines")} for b in bounded],
            undecided=undecided_msgs, known_findings=known_lines,
            cross_check=dict(functions=len(xc), sampled_ok=sum(1 for x in xc if x["accepted"] and not x["failures"]),
                             accepted_inputs=sum(x["accepted"] for x in xc), skipped=sum(1 for x in xc if x["skipped"]),
                             failures=[x for x in xc if x["failures"]][:10],
                             note="native evaluation of the proved clauses on sampled inputs under CPython/NumPy (thorough tier)"),
            _all_obligations=sorted(agg.keys()),
            failed=[dict(name=a["name"], model=a["model"]) for a in failed],
            explanation="Every obligation is (path condition => goal) generated by symbolic execution of the real /repo source and "
                        "discharged by SMT for all inputs satisfying the contract's precondition; loops are cut by invariants.",
        ),
        assumptions=sorted(assumptions),
        wall_s=round(wall, 2),
        violations=len(violations),
    )
    os.makedirs(os.path.join(OUT, "evidence"), exist_ok=True)
    with open(os.path.join(OUT, "evidence", "%s.json" % pid), "w") as f:
        json.dump(ev, f, indent=1, default=str)
    # ---- report
    print("property %s tier=%s: %d obligations (%d path VCs), %d discharged, %d functions x variants, %.1fs" % (
        pid, tier, n_ob, ev["coverage"]["path_vcs"], n_dis, len(results), wall))
    slow = sorted(results, key=lambda r: -r.get("secs", 0))[:3]
    print("slowest: " + ", ".join("%s[%s] %.0fs" % (r["key"].split(":")[-1], r["variant"], r.get("secs", 0)) for r in slow))
    slow_obs = sorted(((a["secs"], a["name"]) for a in agg.values() if a["secs"] > 5.0), reverse=True)[:8]
    if slow_obs:
        print("slow obligations (>5s summed over paths): " + "; ".join("%.0fs %s" % (t_, n_.split(":", 1)[1]) for t_, n_ in slow_obs))
    for r in errors:
        print("CHECKER-ERROR %s[%s]: %s" % (r["key"], r["variant"], r["message"][-1500:]))
    for m in inv_problems:
        print("CHECKER-ERROR inventory: " + m)
    if xc:
        print("cross-check: %d functions x variants, %d inputs accepted by the preconditions and evaluated natively, %d with mismatches, %d not sampled" % (
            len(xc), sum(x["accepted"] for x in xc), len(xc_fail), sum(1 for x in xc if x["skipped"] or not x["accepted"])))
    for x in xc_fail:
        print("CHECKER-ERROR cross-check mismatch %s[%s]: %s" % (x["function"], x["variant"], json.dumps(x["failures"][0])[:600]))
    for m in undecided_msgs:
        print(m)
    for kl in known_lines:
        print(kl)
    for v in violations:
        print(v)
    return status_code, ev


def write_inventory(pid, ev):
    """Record the obligations discharged on the current tree (developer command, run on the pinned tree only)."""
    inv_path = os.path.join(ROOT, "baseline", "obligations.json")
    os.makedirs(os.path.dirname(inv_path), exist_ok=True)
    inv = json.load(open(inv_path)) if os.path.exists(inv_path) else {}
    cur = {}
    names = ev["coverage"]["_all_obligations"]
    deps = {k: sha_of_key(k) for k in ev["coverage"].get("inlined_callees", [])}
    for f in ev["coverage"]["functions_under_contract"]:
        for v in f["variants"]:
            fv = "%s[%s]" % (f["function"], v)
            from pyvc.contracts import REGISTRY as _REG
            cur[fv] = dict(sha256=f["sha256"], obligations=sorted(n for n in names if n.startswith(fv + ":")),
                           contract_sha=contract_sha(_REG.contracts[f["function"]]),
                           deps={k: h for k, h in deps.items() if h and k != f["function"]})
    inv[pid] = cur
    with open(inv_path, "w") as fh:
        json.dump(inv, fh, indent=0, sort_keys=True)
