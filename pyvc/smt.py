"""SMT back ends for pyvc: z3 (Python API) first, then cvc5 and the system z3 binaries on `unknown`.

check_sat(assertions, timeout_ms) -> (status, model_or_None, backend, seconds)
status in {"sat", "unsat", "unknown"}.
"""
import os
import shutil
import subprocess
import tempfile
import time

import z3

CVC5 = shutil.which("cvc5") or "/usr/bin/cvc5"
Z3_OLD = "/usr/bin/z3"

STATS = {"z3": [0, 0.0], "z3+nl-abstraction": [0, 0.0], "cvc5": [0, 0.0], "z3-4.8": [0, 0.0]}
FALLBACK = os.environ.get("PYVC_FALLBACK", "1") == "1"


def _mk_solver(timeout_ms):
    s = z3.Solver()
    s.set("timeout", int(timeout_ms))
    return s


def _run_external(cmd, smt2, timeout_s):
    with tempfile.NamedTemporaryFile("w", suffix=".smt2", delete=False) as f:
        f.write(smt2)
        path = f.name
    try:
        out = subprocess.run(cmd + [path], capture_output=True, text=True, timeout=timeout_s + 5)
        first = (out.stdout.strip().splitlines() or ["unknown"])[0].strip()
        if first in ("sat", "unsat"):
            return first
        return "unknown"
    except subprocess.TimeoutExpired:
        return "unknown"
    finally:
        try:
            os.unlink(path)
        except OSError:
            pass


MULF = z3.Function("$mul", z3.IntSort(), z3.IntSort(), z3.IntSort())


class NLAbstraction:
    """Replaces products of two or more non-constant integer factors by applications of an uninterpreted function
    (commutative by canonical argument order) and emits sound lemmas: interval bounds, sign rules, zero/unit rules.
    Over-approximation: unsat of the abstraction implies unsat of the original."""

    def __init__(self):
        self.memo = {}
        self.ivmemo = {}
        self.apps = {}
        self.keep = []  # keep terms alive so that ids are not reused

    def mk(self, a, b, bounds, lemmas):
        from .intervals import interval, mul_iv, INF
        if a.get_id() > b.get_id():
            a, b = b, a
        key = (a.get_id(), b.get_id())
        if key in self.apps:
            return self.apps[key]
        app = MULF(a, b)
        ia, ib = interval(a, bounds, dict(self.ivmemo)), interval(b, bounds, dict(self.ivmemo))
        fin = all(abs(v) != INF for v in (ia[0], ia[1], ib[0], ib[1]))
        iv = mul_iv(ia, ib) if fin else (-INF, INF)
        if a.get_id() == b.get_id():
            iv = (max(0, iv[0]), iv[1])
            lemmas.append(app >= 0)
        self.ivmemo[app.get_id()] = iv
        if iv[0] != -INF:
            lemmas.append(app >= int(iv[0]))
        if iv[1] != INF:
            lemmas.append(app <= int(iv[1]))
        lemmas.append(z3.Implies(z3.Or(a == 0, b == 0), app == 0))
        lemmas.append(z3.Implies(z3.Or(z3.And(a > 0, b > 0), z3.And(a < 0, b < 0)), app > 0))
        lemmas.append(z3.Implies(z3.Or(z3.And(a > 0, b < 0), z3.And(a < 0, b > 0)), app < 0))
        lemmas.append(z3.Implies(a == 1, app == b))
        lemmas.append(z3.Implies(b == 1, app == a))
        lemmas.append(z3.Implies(z3.And(a >= 0, b >= 1), app >= a))
        lemmas.append(z3.Implies(z3.And(b >= 0, a >= 1), app >= b))
        self.apps[key] = app
        self.keep.append((a, b, app))
        return app

    def walk(self, t, bounds, lemmas):
        k = t.get_id()
        r = self.memo.get(k)
        if r is not None:
            return r
        if z3.is_quantifier(t) or not z3.is_app(t) or t.num_args() == 0:
            self.memo[k] = t
            self.keep.append(t)
            return t
        ch = [self.walk(c, bounds, lemmas) for c in t.children()]
        if z3.is_int(t) and t.decl().kind() == z3.Z3_OP_MUL:
            const = 1
            non = []
            for c in ch:
                if z3.is_int_value(c):
                    const *= c.as_long()
                else:
                    non.append(c)
            if len(non) >= 2:
                non.sort(key=lambda x: x.get_id())
                acc = non[0]
                for c in non[1:]:
                    acc = self.mk(acc, c, bounds, lemmas)
                r = acc if const == 1 else acc * const
                self.memo[k] = r
                self.keep.append(t)
                return r
        changed = any(c.get_id() != o.get_id() for c, o in zip(ch, t.children()))
        r = t.decl()(*ch) if changed else t
        self.memo[k] = r
        self.keep.append(t)
        return r

    def abstract(self, t, bounds):
        lemmas = []
        r = self.walk(t, bounds, lemmas)
        return r, lemmas


def abstract_nl(assertions):
    from .intervals import collect_bounds
    bounds = collect_bounds(assertions)
    ab = NLAbstraction()
    out = []
    lemmas = []
    for a in assertions:
        r, ls = ab.abstract(a, bounds)
        out.append(r)
        lemmas += ls
    return out + lemmas, len(ab.apps)


def _z3_check(assertions, timeout_ms, tag="z3"):
    t0 = time.time()
    s = _mk_solver(timeout_ms)
    for a in assertions:
        s.add(a)
    r = s.check()
    dt = time.time() - t0
    STATS.setdefault(tag, [0, 0.0])
    STATS[tag][0] += 1
    STATS[tag][1] += dt
    return r, s, dt


def check_sat(assertions, timeout_ms=10000, want_model=True, fallback=True):
    """Decide satisfiability of the conjunction of `assertions` (z3 BoolRefs).
    Portfolio, in order: z3 on the nonlinear abstraction (unsat only) -> z3 (short) -> cvc5 -> z3 (full budget) -> z3 4.8."""
    t0 = time.time()
    try:
        simp = [z3.simplify(a, som=False) for a in assertions]
        abstracted, napps = abstract_nl(simp)
    except Exception:
        napps = 0
    if napps:
        ra, sa, dta = _z3_check(abstracted, max(2000, timeout_ms // 2), "z3+nl-abstraction")
        if ra == z3.unsat:
            return "unsat", None, "z3+nl-abstraction", dta
    quick = min(3000, timeout_ms)
    r, s, dt = _z3_check(assertions, quick)
    if r == z3.unsat:
        return "unsat", None, "z3", time.time() - t0
    if r == z3.sat:
        return "sat", (s.model() if want_model else None), "z3", time.time() - t0
    if os.environ.get("PYVC_DUMP"):
        global _DUMP_N
        _DUMP_N = globals().get("_DUMP_N", 0) + 1
        with open("%s_%d.smt2" % (os.environ["PYVC_DUMP"], _DUMP_N), "w") as f:
            f.write("(set-logic ALL)\n" + s.to_smt2())
    smt2 = None
    if fallback and FALLBACK and os.path.exists(CVC5):
        smt2 = "(set-logic ALL)\n" + s.to_smt2().replace("(set-info :status unknown)", "")
        t1 = time.time()
        res = _run_external([CVC5, "--tlimit=%d" % timeout_ms, "--nl-ext-tplanes"], smt2, timeout_ms / 1000.0)
        STATS["cvc5"][0] += 1
        STATS["cvc5"][1] += time.time() - t1
        if res == "unsat":
            return "unsat", None, "cvc5", time.time() - t0
        # a 'sat' from cvc5 is not trusted for quantified formulas without a model in hand; keep looking with z3
    if timeout_ms > quick:
        r, s, dt = _z3_check(assertions, timeout_ms)
        if r == z3.unsat:
            return "unsat", None, "z3", time.time() - t0
        if r == z3.sat:
            return "sat", (s.model() if want_model else None), "z3", time.time() - t0
    if fallback and FALLBACK and os.path.exists(Z3_OLD):
        if smt2 is None:
            smt2 = "(set-logic ALL)\n" + s.to_smt2().replace("(set-info :status unknown)", "")
        t2 = time.time()
        res = _run_external([Z3_OLD, "-T:%d" % max(1, timeout_ms // 1000)], smt2, timeout_ms / 1000.0)
        STATS["z3-4.8"][0] += 1
        STATS["z3-4.8"][1] += time.time() - t2
        if res == "unsat":
            return "unsat", None, "z3-4.8", time.time() - t0
    return "unknown", None, "z3", time.time() - t0
