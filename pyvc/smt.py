"""SMT back ends for pyvc: z3 (Python API) first, then cvc5 and the system z3 binaries on `unknown`.

check_sat(assertions, timeout_ms) -> (status, model_or_None, backend, seconds)
status in {"sat", "unsat", "unknown"}.
"""
import os
import shutil
import subprocess
import tempfile
import time

import z3

CVC5 = shutil.which("cvc5") or "/usr/bin/cvc5"
Z3_OLD = "/usr/bin/z3"

STATS = {"z3": [0, 0.0], "z3+nl-abstraction": [0, 0.0], "cvc5": [0, 0.0], "z3-4.8": [0, 0.0]}
FALLBACK = os.environ.get("PYVC_FALLBACK", "1") == "1"


def _mk_solver(timeout_ms):
    s = z3.Solver()
    s.set("timeout", int(timeout_ms))
    return s


def _run_external(cmd, smt2, timeout_s):
    with tempfile.NamedTemporaryFile("w", suffix=".smt2", delete=False) as f:
        f.write(smt2)
        path = f.name
    try:
        out = subprocess.run(cmd + [path], capture_output=True, text=True, timeout=timeout_s + 5)
        first = (out.stdout.strip().splitlines() or ["unknown"])[0].strip()
        if first in ("sat", "unsat"):
            return first
        return "unknown"
    except subprocess.TimeoutExpired:
        return "unknown"
    finally:
        try:
            os.unlink(path)
        except OSError:
            pass


MULF = z3.Function("$mul", z3.IntSort(), z3.IntSort(), z3.IntSort())


class NLAbstraction:
    """Replaces products of two or more non-constant integer factors by applications of an uninterpreted function
    (commutative by canonical argument order) and emits sound lemmas: interval bounds, sign rules, zero/unit rules.
    Over-approximation: unsat of the abstraction implies unsat of the original."""

    def __init__(self):
        self.memo = {}
        self.ivmemo = {}
        self.apps = {}
        self.keep = []  # keep terms alive so that ids are not reused

    def mk(self, a, b, bounds, lemmas):
        from .intervals import interval, mul_iv, INF
        if a.get_id() > b.get_id():
            a, b = b, a
        key = (a.get_id(), b.get_id())
        if key in self.apps:
            return self.apps[key]
        app = MULF(a, b)
        ia, ib = interval(a, bounds, dict(self.ivmemo)), interval(b, bounds, dict(self.ivmemo))
        fin = all(abs(v) != INF for v in (ia[0], ia[1], ib[0], ib[1]))
        iv = mul_iv(ia, ib) if fin else (-INF, INF)
        if a.get_id() == b.get_id():
            iv = (max(0, iv[0]), iv[1])
            lemmas.append(app >= 0)
        self.ivmemo[app.get_id()] = iv
        if iv[0] != -INF:
            lemmas.append(app >= int(iv[0]))
        if iv[1] != INF:
            lemmas.append(app <= int(iv[1]))
        lemmas.append(z3.Implies(z3.Or(a == 0, b == 0), app == 0))
        lemmas.append(z3.Implies(z3.Or(z3.And(a > 0, b > 0), z3.And(a < 0, b < 0)), app > 0))
        lemmas.append(z3.Implies(z3.Or(z3.And(a > 0, b < 0), z3.And(a < 0, b > 0)), app < 0))
        lemmas.append(z3.Implies(a == 1, app == b))
        lemmas.append(z3.Implies(b == 1, app == a))
        lemmas.append(z3.Implies(z3.And(a >= 0, b >= 1), app >= a))
        lemmas.append(z3.Implies(z3.And(b >= 0, a >= 1), app >= b))
        self.apps[key] = app
        self.keep.append((a, b, app))
        return app

    def walk(self, t, bounds, lemmas):
        k = t.get_id()
        r = self.memo.get(k)
        if r is not None:
            return r
        if z3.is_quantifier(t) or not z3.is_app(t) or t.num_args() == 0:
            self.memo[k] = t
            self.keep.append(t)
            return t
        ch = [self.walk(c, bounds, lemmas) for c in t.children()]
        if z3.is_int(t) and t.decl().kind() == z3.Z3_OP_MUL:
            const = 1
            non = []
            for c in ch:
                if z3.is_int_value(c):
                    const *= c.as_long()
                else:
                    non.append(c)
            if len(non) >= 2:
                non.sort(key=lambda x: x.get_id())
                acc = non[0]
                for c in non[1:]:
                    acc = self.mk(acc, c, bounds, lemmas)
                r = acc if const == 1 else acc * const
                self.memo[k] = r
                self.keep.append(t)
                return r
        changed = any(c.get_id() != o.get_id() for c, o in zip(ch, t.children()))
        r = t.decl()(*ch) if changed else t
        self.memo[k] = r
        self.keep.append(t)
        return r

    def abstract(self, t, bounds):
        lemmas = []
        r = self.walk(t, bounds, lemmas)
        return r, lemmas


def abstract_nl(assertions):
    from .intervals import collect_bounds
    bounds = collect_bounds(assertions)
    ab = NLAbstraction()
    out = []
    lemmas = []
    for a in assertions:
        r, ls = ab.abstract(a, bounds)
        out.append(r)
        lemmas += ls
    return out + lemmas, len(ab.apps)


def check_sat(assertions, timeout_ms=10000, want_model=True, fallback=True):
    """Decide satisfiability of the conjunction of `assertions` (z3 BoolRefs)."""
    t0 = time.time()
    try:
        simp = [z3.simplify(a, som=False) for a in assertions]
        abstracted, napps = abstract_nl(simp)
    except Exception:
        napps = 0
    if napps:
        sa = _mk_solver(max(2000, timeout_ms // 2))
        for a in abstracted:
            sa.add(a)
        ra = sa.check()
        dta = time.time() - t0
        STATS.setdefault("z3+nl-abstraction", [0, 0.0])
        STATS["z3+nl-abstraction"][0] += 1
        STATS["z3+nl-abstraction"][1] += dta
        if ra == z3.unsat:
            return "unsat", None, "z3+nl-abstraction", dta
    s = _mk_solver(timeout_ms)
    for a in assertions:
        s.add(a)
    r = s.check()
    dt = time.time() - t0
    STATS["z3"][0] += 1
    STATS["z3"][1] += dt
    if r == z3.unsat:
        return "unsat", None, "z3", dt
    if r == z3.sat:
        return "sat", (s.model() if want_model else None), "z3", dt
    if not (fallback and FALLBACK):
        return "unknown", None, "z3", dt
    # fall back to external solvers on the SMT-LIB text
    smt2 = "(set-logic ALL)\n" + s.to_smt2().replace("(set-info :status unknown)", "")
    t1 = time.time()
    if os.path.exists(CVC5):
        res = _run_external(
            [CVC5, "--tlimit=%d" % timeout_ms, "--nl-ext-tplanes"], smt2, timeout_ms / 1000.0
        )
        d = time.time() - t1
        STATS["cvc5"][0] += 1
        STATS["cvc5"][1] += d
        if res in ("unsat", "sat"):
            # a 'sat' from an external solver has no model in our hands: report it without a model
            return res, None, "cvc5", time.time() - t0
    t2 = time.time()
    if os.path.exists(Z3_OLD):
        res = _run_external([Z3_OLD, "-T:%d" % max(1, timeout_ms // 1000)], smt2, timeout_ms / 1000.0)
        d = time.time() - t2
        STATS["z3-4.8"][0] += 1
        STATS["z3-4.8"][1] += d
        if res in ("unsat", "sat"):
            return res, None, "z3-4.8", time.time() - t0
    return "unknown", None, "z3", time.time() - t0
