"""SMT back ends for pyvc: z3 (Python API) first, then cvc5 and the system z3 binaries on `unknown`.

check_sat(assertions, timeout_ms) -> (status, model_or_None, backend, seconds)
status in {"sat", "unsat", "unknown"}.
"""
import os
import shutil
import subprocess
import tempfile
import time

import z3

CVC5 = shutil.which("cvc5") or "/usr/bin/cvc5"
Z3_OLD = "/usr/bin/z3"

STATS = {"z3": [0, 0.0], "z3+nl-abstraction": [0, 0.0], "cvc5": [0, 0.0], "z3-4.8": [0, 0.0]}
FALLBACK = os.environ.get("PYVC_FALLBACK", "1") == "1"


def _mk_solver(timeout_ms):
    s = z3.Solver()
    s.set("timeout", int(timeout_ms))
    return s


def _run_external(cmd, smt2, timeout_s):
    with tempfile.NamedTemporaryFile("w", suffix=".smt2", delete=False) as f:
        f.write(smt2)
        path = f.name
    try:
        out = subprocess.run(cmd + [path], capture_output=True, text=True, timeout=timeout_s + 5)
        first = (out.stdout.strip().splitlines() or ["unknown"])[0].strip()
        if first in ("sat", "unsat"):
            return first
        return "unknown"
    except subprocess.TimeoutExpired:
        return "unknown"
    finally:
        try:
            os.unlink(path)
        except OSError:
            pass


MULF = z3.Function("$mul", z3.IntSort(), z3.IntSort(), z3.IntSort())


class NLAbstraction:
    """Replaces products of two or more non-constant integer factors by applications of an uninterpreted function
    (commutative by canonical argument order) and emits sound lemmas: interval bounds, sign rules, zero/unit rules.
    Over-approximation: unsat of the abstraction implies unsat of the original."""

    def __init__(self):
        self.memo = {}
        self.ivmemo = {}
        self.apps = {}
        self.app_lemmas = {}
        self.memo_apps = {}   # term id -> keys of the product applications inside its abstraction
        self.keep = []  # keep terms alive so that ids are not reused

    def mk(self, a, b, bounds, lemmas):
        from .intervals import interval, mul_iv, INF
        if a.get_id() > b.get_id():
            a, b = b, a
        key = (a.get_id(), b.get_id())
        if key in self.apps:
            # re-emit the lemmas: an earlier emission may have happened inside a solver scope that was popped
            lemmas.extend(self.app_lemmas[key])
            return self.apps[key]
        n0 = len(lemmas)
        app = MULF(a, b)
        ia, ib = interval(a, bounds, dict(self.ivmemo)), interval(b, bounds, dict(self.ivmemo))
        fin = all(abs(v) != INF for v in (ia[0], ia[1], ib[0], ib[1]))
        iv = mul_iv(ia, ib) if fin else (-INF, INF)
        if a.get_id() == b.get_id():
            iv = (max(0, iv[0]), iv[1])
            lemmas.append(app >= 0)
        self.ivmemo[app.get_id()] = iv
        if iv[0] != -INF:
            lemmas.append(app >= int(iv[0]))
        if iv[1] != INF:
            lemmas.append(app <= int(iv[1]))
        lemmas.append(z3.Implies(z3.Or(a == 0, b == 0), app == 0))
        lemmas.append(z3.Implies(z3.Or(z3.And(a > 0, b > 0), z3.And(a < 0, b < 0)), app > 0))
        lemmas.append(z3.Implies(z3.Or(z3.And(a > 0, b < 0), z3.And(a < 0, b > 0)), app < 0))
        lemmas.append(z3.Implies(a == 1, app == b))
        lemmas.append(z3.Implies(b == 1, app == a))
        lemmas.append(z3.Implies(z3.And(a >= 0, b >= 1), app >= a))
        lemmas.append(z3.Implies(z3.And(b >= 0, a >= 1), app >= b))
        self.apps[key] = app
        self.app_lemmas[key] = list(lemmas[n0:])
        self.keep.append((a, b, app))
        return app

    def walk(self, t, bounds, lemmas):
        k = t.get_id()
        r = self.memo.get(k)
        if r is not None:
            for key in self.memo_apps.get(k, ()):
                lemmas.extend(self.app_lemmas[key])
            return r
        if z3.is_quantifier(t) or not z3.is_app(t) or t.num_args() == 0:
            self.memo[k] = t
            self.keep.append(t)
            return t
        ch = [self.walk(c, bounds, lemmas) for c in t.children()]
        used = set()
        for c in t.children():
            used.update(self.memo_apps.get(c.get_id(), ()))
        if z3.is_int(t) and t.decl().kind() == z3.Z3_OP_MUL:
            const = 1
            non = []
            for c in ch:
                if z3.is_int_value(c):
                    const *= c.as_long()
                else:
                    non.append(c)
            if len(non) >= 2:
                non.sort(key=lambda x: x.get_id())
                acc = non[0]
                for c in non[1:]:
                    x, y = (acc, c) if acc.get_id() <= c.get_id() else (c, acc)
                    acc = self.mk(acc, c, bounds, lemmas)
                    used.add((x.get_id(), y.get_id()))
                r = acc if const == 1 else acc * const
                self.memo[k] = r
                if used:
                    self.memo_apps[k] = used
                self.keep.append(t)
                return r
        changed = any(c.get_id() != o.get_id() for c, o in zip(ch, t.children()))
        r = t.decl()(*ch) if changed else t
        self.memo[k] = r
        if used:
            self.memo_apps[k] = used
        self.keep.append(t)
        return r

    def abstract(self, t, bounds):
        lemmas = []
        r = self.walk(t, bounds, lemmas)
        return r, lemmas


def abstract_nl(assertions):
    from .intervals import collect_bounds
    bounds = collect_bounds(assertions)
    ab = NLAbstraction()
    out = []
    lemmas = []
    for a in assertions:
        r, ls = ab.abstract(a, bounds)
        out.append(r)
        lemmas += ls
    return out + lemmas, len(ab.apps)


def _z3_check(assertions, timeout_ms, tag="z3"):
    t0 = time.time()
    s = _mk_solver(timeout_ms)
    for a in assertions:
        s.add(a)
    r = s.check()
    dt = time.time() - t0
    STATS.setdefault(tag, [0, 0.0])
    STATS[tag][0] += 1
    STATS[tag][1] += dt
    return r, s, dt


def _int_consts(assertions):
    seen = {}
    stack = list(assertions)
    visited = set()
    while stack:
        t = stack.pop()
        k = t.get_id()
        if k in visited:
            continue
        visited.add(k)
        if z3.is_quantifier(t):
            stack.append(t.body())
            continue
        if z3.is_app(t):
            if t.num_args() == 0 and z3.is_int(t) and t.decl().kind() == z3.Z3_OP_UNINTERPRETED:
                seen[k] = t
            else:
                stack.extend(t.children())
        if len(visited) > 200000:
            break
    return list(seen.values())


def _has_quantifier(assertions):
    stack = list(assertions)
    visited = set()
    while stack:
        t = stack.pop()
        k = t.get_id()
        if k in visited:
            continue
        visited.add(k)
        if z3.is_quantifier(t):
            return True
        if z3.is_app(t):
            stack.extend(t.children())
        if len(visited) > 200000:
            return True
    return False


class DictModel:
    """Minimal model object (eval of terms under a concrete assignment of the constants)."""

    def __init__(self, subst):
        self.subst = subst

    def eval(self, t, model_completion=True):
        return z3.simplify(z3.substitute(t, *self.subst))


def _random_falsify(assertions, budget_s=5.0, seed=12345):
    import random
    from .intervals import collect_bounds
    if _has_quantifier(assertions):
        return None
    consts = _int_consts(assertions)
    if not consts or len(consts) > 40:
        return None
    # only pure Int/Bool problems
    bools = {}
    stack = list(assertions)
    visited = set()
    while stack:
        t = stack.pop()
        if t.get_id() in visited:
            continue
        visited.add(t.get_id())
        if z3.is_app(t):
            if t.num_args() == 0 and t.decl().kind() == z3.Z3_OP_UNINTERPRETED:
                if z3.is_bool(t):
                    bools[t.get_id()] = t
                elif not z3.is_int(t):
                    return None
            elif t.decl().kind() == z3.Z3_OP_UNINTERPRETED:
                return None  # uninterpreted function applications: no concrete evaluation
            stack.extend(t.children())
    bounds = collect_bounds(assertions)
    conj = z3.And(list(assertions))
    rnd = random.Random(seed)
    small = [0, 1, 2, 3, 4, 5, 7, 8, 9, 12, 15, 16, 17, 24, 31, 32, 33, 40, 63, 64, 65, 127, 128, 255, 256, 1023, 1024]
    t_end = time.time() + budget_s
    n = 0
    while time.time() < t_end:
        n += 1
        sub = []
        for c in consts:
            e = bounds.get(c.get_id())
            lo, hi = (e[1], e[2]) if e else (-float("inf"), float("inf"))
            lo_i = int(lo) if lo != -float("inf") else -(1 << 40)
            hi_i = int(hi) if hi != float("inf") else (1 << 40)
            r = rnd.random()
            if r < 0.45:
                v = rnd.choice(small)
                if rnd.random() < 0.2:
                    v = -v
            elif r < 0.6:
                v = rnd.choice((lo_i, lo_i + 1, hi_i, hi_i - 1))
            elif r < 0.8:
                v = rnd.randint(0, 1 << rnd.randint(1, 34)) * rnd.choice((1, 1, 1, -1))
            else:
                v = rnd.randint(lo_i, hi_i)
            v = max(lo_i, min(hi_i, v))
            sub.append((c, z3.IntVal(v)))
        for b in bools.values():
            sub.append((b, z3.BoolVal(rnd.random() < 0.5)))
        if z3.is_true(z3.simplify(z3.substitute(conj, *sub))):
            return DictModel(sub)
    return None


def check_sat(assertions, timeout_ms=10000, want_model=True, fallback=True):
    """Decide satisfiability of the conjunction of `assertions` (z3 BoolRefs).
    Portfolio, in order: z3 on the nonlinear abstraction (unsat only) -> z3 (short) -> cvc5 -> z3 (full budget) -> z3 4.8."""
    t0 = time.time()
    # hypothesis filtering: dropping hypotheses is sound for 'unsat'. Quantified hypotheses (invariants, frame axioms)
    # put z3 into its slow quantifier mode, so first try with the quantifier-free ones only.
    try:
        qf = [a for a in assertions[:-1] if not _contains_quantifier(a)] + [assertions[-1]] if assertions else []
        if assertions and len(qf) < len(assertions):
            r0 = _core_check(qf, min(4000, timeout_ms), want_model=False, allow_sat=False)
            if r0 is not None:
                return r0[0], r0[1], r0[2] + "(qf-hyps)", time.time() - t0
    except z3.Z3Exception:
        pass
    return _core_check(assertions, timeout_ms, want_model, True, fallback, t0)


def _contains_quantifier(t):
    stack = [t]
    visited = set()
    while stack:
        x = stack.pop()
        k = x.get_id()
        if k in visited:
            continue
        visited.add(k)
        if z3.is_quantifier(x):
            return True
        if z3.is_app(x):
            stack.extend(x.children())
        if len(visited) > 100000:
            return True
    return False


def _core_check(assertions, timeout_ms, want_model=True, allow_sat=True, fallback=True, t0=None):
    """Portfolio on a fixed assertion set. With allow_sat=False only an 'unsat' answer is returned (else None)."""
    t0 = t0 or time.time()
    if not allow_sat:
        try:
            simp = [z3.simplify(a, som=False) for a in assertions]
            abstracted, napps = abstract_nl(simp)
        except Exception:
            napps = 0
        if napps:
            ra, sa, dta = _z3_check(abstracted, timeout_ms, "z3+nl-abstraction")
            if ra == z3.unsat:
                return "unsat", None, "z3+nl-abstraction", dta
        r, s_, dt = _z3_check(assertions, timeout_ms)
        if r == z3.unsat:
            return "unsat", None, "z3", dt
        return None
    try:
        simp = [z3.simplify(a, som=False) for a in assertions]
        abstracted, napps = abstract_nl(simp)
    except Exception:
        napps = 0
    if napps:
        ra, sa, dta = _z3_check(abstracted, max(2000, timeout_ms // 2), "z3+nl-abstraction")
        if ra == z3.unsat:
            return "unsat", None, "z3+nl-abstraction", dta
    quick = min(3000, timeout_ms)
    r, s, dt = _z3_check(assertions, quick)
    if r == z3.unsat:
        return "unsat", None, "z3", time.time() - t0
    if r == z3.sat:
        return "sat", (s.model() if want_model else None), "z3", time.time() - t0
    # small-scope falsification: a model under additional bounds on the integer constants is a model of the original
    try:
        consts = _int_consts(assertions)
        if consts and not _has_quantifier(assertions):
            for B in (8, 64, 1024, 1 << 17):
                extra = [z3.And(c >= -B, c <= B) for c in consts]
                rs, ss, _dt = _z3_check(list(assertions) + extra, min(4000, timeout_ms), "z3-small-scope")
                if rs == z3.sat:
                    return "sat", (ss.model() if want_model else None), "z3-small-scope", time.time() - t0
    except z3.Z3Exception:
        pass
    # randomised concrete falsification (refutations only; every counter-model is replayed natively by the caller)
    try:
        m = _random_falsify(assertions, budget_s=min(8.0, timeout_ms / 1000.0))
        if m is not None:
            return "sat", m, "concrete-search", time.time() - t0
    except z3.Z3Exception:
        pass
    if os.environ.get("PYVC_DUMP"):
        global _DUMP_N
        _DUMP_N = globals().get("_DUMP_N", 0) + 1
        with open("%s_%d.smt2" % (os.environ["PYVC_DUMP"], _DUMP_N), "w") as f:
            f.write("(set-logic ALL)\n" + s.to_smt2())
    smt2 = None
    if fallback and FALLBACK and os.path.exists(CVC5):
        smt2 = "(set-logic ALL)\n" + s.to_smt2().replace("(set-info :status unknown)", "")
        t1 = time.time()
        res = _run_external([CVC5, "--tlimit=%d" % timeout_ms, "--nl-ext-tplanes"], smt2, timeout_ms / 1000.0)
        STATS["cvc5"][0] += 1
        STATS["cvc5"][1] += time.time() - t1
        if res == "unsat":
            return "unsat", None, "cvc5", time.time() - t0
        # a 'sat' from cvc5 is not trusted for quantified formulas without a model in hand; keep looking with z3
    if timeout_ms > quick:
        r, s, dt = _z3_check(assertions, timeout_ms)
        if r == z3.unsat:
            return "unsat", None, "z3", time.time() - t0
        if r == z3.sat:
            return "sat", (s.model() if want_model else None), "z3", time.time() - t0
    if fallback and FALLBACK and os.path.exists(Z3_OLD):
        if smt2 is None:
            smt2 = "(set-logic ALL)\n" + s.to_smt2().replace("(set-info :status unknown)", "")
        t2 = time.time()
        res = _run_external([Z3_OLD, "-T:%d" % max(1, timeout_ms // 1000)], smt2, timeout_ms / 1000.0)
        STATS["z3-4.8"][0] += 1
        STATS["z3-4.8"][1] += time.time() - t2
        if res == "unsat":
            return "unsat", None, "z3-4.8", time.time() - t0
    return "unknown", None, "z3", time.time() - t0


def alpha_eq(a, b, _depth=0):
    """Structural equality of two z3 terms modulo the names of bound variables (z3 compares quantifiers including the names)."""
    if a.eq(b):
        return True
    if _depth > 400:
        return False
    qa, qb = z3.is_quantifier(a), z3.is_quantifier(b)
    if qa or qb:
        if not (qa and qb):
            return False
        if a.is_forall() != b.is_forall() or a.is_lambda() != b.is_lambda() or a.num_vars() != b.num_vars():
            return False
        for i in range(a.num_vars()):
            if not a.var_sort(i).eq(b.var_sort(i)):
                return False
        return alpha_eq(a.body(), b.body(), _depth + 1)
    va, vb = z3.is_var(a), z3.is_var(b)
    if va or vb:
        return va and vb and z3.get_var_index(a) == z3.get_var_index(b) and a.sort().eq(b.sort())
    if not (z3.is_app(a) and z3.is_app(b)):
        return False
    if not a.decl().eq(b.decl()) or a.num_args() != b.num_args():
        return False
    for x, y in zip(a.children(), b.children()):
        if not alpha_eq(x, y, _depth + 1):
            return False
    return True
