"""SMT back ends for pyvc: z3 (Python API) first, then cvc5 and the system z3 binaries on `unknown`.

check_sat(assertions, timeout_ms) -> (status, model_or_None, backend, seconds)
status in {"sat", "unsat", "unknown"}.
"""
import os
import shutil
import subprocess
import tempfile
import time

import z3

CVC5 = shutil.which("cvc5") or "/usr/bin/cvc5"
Z3_OLD = "/usr/bin/z3"

STATS = {"z3": [0, 0.0], "cvc5": [0, 0.0], "z3-4.8": [0, 0.0]}
FALLBACK = os.environ.get("PYVC_FALLBACK", "1") == "1"


def _mk_solver(timeout_ms):
    s = z3.Solver()
    s.set("timeout", int(timeout_ms))
    return s


def _run_external(cmd, smt2, timeout_s):
    with tempfile.NamedTemporaryFile("w", suffix=".smt2", delete=False) as f:
        f.write(smt2)
        path = f.name
    try:
        out = subprocess.run(cmd + [path], capture_output=True, text=True, timeout=timeout_s + 5)
        first = (out.stdout.strip().splitlines() or ["unknown"])[0].strip()
        if first in ("sat", "unsat"):
            return first
        return "unknown"
    except subprocess.TimeoutExpired:
        return "unknown"
    finally:
        try:
            os.unlink(path)
        except OSError:
            pass


def check_sat(assertions, timeout_ms=10000, want_model=True, fallback=True):
    """Decide satisfiability of the conjunction of `assertions` (z3 BoolRefs)."""
    t0 = time.time()
    s = _mk_solver(timeout_ms)
    for a in assertions:
        s.add(a)
    r = s.check()
    dt = time.time() - t0
    STATS["z3"][0] += 1
    STATS["z3"][1] += dt
    if r == z3.unsat:
        return "unsat", None, "z3", dt
    if r == z3.sat:
        return "sat", (s.model() if want_model else None), "z3", dt
    if not (fallback and FALLBACK):
        return "unknown", None, "z3", dt
    # fall back to external solvers on the SMT-LIB text
    smt2 = "(set-logic ALL)\n" + s.to_smt2().replace("(set-info :status unknown)", "")
    t1 = time.time()
    if os.path.exists(CVC5):
        res = _run_external(
            [CVC5, "--tlimit=%d" % timeout_ms, "--nl-ext-tplanes"], smt2, timeout_ms / 1000.0
        )
        d = time.time() - t1
        STATS["cvc5"][0] += 1
        STATS["cvc5"][1] += d
        if res in ("unsat", "sat"):
            # a 'sat' from an external solver has no model in our hands: report it without a model
            return res, None, "cvc5", time.time() - t0
    t2 = time.time()
    if os.path.exists(Z3_OLD):
        res = _run_external([Z3_OLD, "-T:%d" % max(1, timeout_ms // 1000)], smt2, timeout_ms / 1000.0)
        d = time.time() - t2
        STATS["z3-4.8"][0] += 1
        STATS["z3-4.8"][1] += d
        if res in ("unsat", "sat"):
            return res, None, "z3-4.8", time.time() - t0
    return "unknown", None, "z3", time.time() - t0
