"""pyvc symbolic executor: runs the *real* AST of a /repo function on symbolic values and emits
proof obligations (path condition => goal) that are discharged by SMT.

Exploration is by re-execution with a decision log (one Engine instance per path).
"""
import ast
import builtins
import enum
import inspect
import math
import struct as _struct
import sys
import textwrap
import time

import numpy as np
import z3

from . import smt
from .values import *  # noqa: F401,F403
from .values import np_range

RNE = z3.RNE()
RTZ = z3.RTZ()
F64S = z3.Float64()
F32S = z3.Float32()

MODEL_LIMIT_KINDS = ("model_limit",)


def fsort(kind):
    return F64S if kind == "f64" else F32S


def simp(t):
    return z3.simplify(t)


def is_conc_int(t):
    t = simp(t)
    return z3.is_int_value(t)


def conc_int(t):
    t = simp(t)
    if z3.is_int_value(t):
        return t.as_long()
    return None


def conc_bool(t):
    t = simp(t)
    if z3.is_true(t):
        return True
    if z3.is_false(t):
        return False
    return None


def fdiv(a, b):
    """Python floor division on z3 Ints (b != 0 proved by the caller)."""
    cb = conc_int(b)
    if cb is not None:
        if cb > 0:
            return a / b
        return (-a) / (-b)
    return z3.If(b > 0, a / b, (-a) / (-b))


def fmod(a, b):
    """Python % on z3 Ints: result has the sign of b."""
    cb = conc_int(b)
    if cb is not None and cb > 0:
        return a % b
    return a - b * fdiv(a, b)


def wrap(t, npk):
    bits, signed = npk
    c = conc_int(t)
    m = 1 << bits
    if c is not None:
        c %= m
        if signed and c >= m // 2:
            c -= m
        return z3.IntVal(c)
    if signed:
        h = m // 2
        return (t + h) % m - h
    return t % m


# ----------------------------------------------------------------------------------------------
# source access


class FuncSource:
    """The real function: native object, AST parsed from the file the interpreter imports."""

    _cache = {}

    def __init__(self, fn):
        self.fn = fn
        src = inspect.getsource(fn)
        self.text = src
        self.file = inspect.getsourcefile(fn)
        self.first_line = inspect.getsourcelines(fn)[1]
        tree = ast.parse(textwrap.dedent(src))
        self.node = tree.body[0]
        ast.increment_lineno(self.node, self.first_line - 1)
        self.last_line = self.first_line + src.count("\n") - 1
        # loop ordinals: source order
        loops = [n for n in ast.walk(self.node) if isinstance(n, (ast.For, ast.While))]
        # exclude loops of nested function definitions from the outer numbering? keep all, source order
        loops.sort(key=lambda n: (n.lineno, n.col_offset))
        self.loop_ord = {id(n): i for i, n in enumerate(loops)}

    @classmethod
    def of(cls, fn):
        fn = inspect.unwrap(fn) if hasattr(fn, "__wrapped__") else fn
        k = id(fn)
        if k not in cls._cache:
            cls._cache[k] = FuncSource(fn)
        return cls._cache[k]


# ----------------------------------------------------------------------------------------------
# obligations


class Obligation:
    __slots__ = ("func", "variant", "kind", "label", "line", "status", "backend", "secs", "model", "path", "text")

    def __init__(self, func, variant, kind, label, line):
        self.func = func
        self.variant = variant
        self.kind = kind
        self.label = label
        self.line = line
        self.status = None
        self.backend = None
        self.secs = 0.0
        self.model = None
        self.path = None
        self.text = None

    @property
    def name(self):
        return "%s[%s]:%s:%s" % (self.func, self.variant, self.kind, self.label)

    def to_dict(self):
        return dict(
            name=self.name, func=self.func, variant=self.variant, kind=self.kind, label=self.label, line=self.line,
            status=self.status, backend=self.backend, secs=round(self.secs, 4), model=self.model, text=self.text,
        )


class Shared:
    """State shared by all paths of one (function, variant) verification."""

    def __init__(self, func_name, variant_name, timeout_ms):
        self.func_name = func_name
        self.variant_name = variant_name
        self.timeout_ms = timeout_ms
        self.obligations = []
        self.paths = 0
        self.exits = {}  # outcome kind -> count
        self.counter = 0
        self.unsupported = []
        self.sample_texts = []
        self.reached = set()  # labels of ensures reached by a feasible path
        self.cover = {}


# ----------------------------------------------------------------------------------------------


class DualSolver:
    """Path solver used for pruning / cheap implied facts (only 'unsat' answers are ever relied upon). Quantifier-free facts go to
    a fast solver; the solver holding ALL facts (incl. quantified invariants and list axioms) is consulted only when the fast one
    cannot refute, and with a short budget, because z3's quantifier engine burns its whole time-out on satisfiable queries."""

    def __init__(self):
        self.qf = z3.Solver()
        self.qf.set("timeout", 1500)
        self.full = z3.Solver()
        self.full.set("timeout", 400)
        self.nq = [0]

    def add(self, t):
        self.full.add(t)
        if smt._contains_quantifier(t):
            self.nq[-1] += 1
        else:
            self.qf.add(t)

    def push(self):
        self.qf.push()
        self.full.push()
        self.nq.append(0)

    def pop(self):
        self.qf.pop()
        self.full.pop()
        self.nq.pop()

    def check(self):
        r = self.qf.check()
        if r == z3.unsat or sum(self.nq) == 0:
            return r
        r2 = self.full.check()
        return r2 if r2 == z3.unsat else r

    def set(self, *a, **k):
        self.qf.set(*a, **k)


class Engine:
    def __init__(self, shared, contract, registry, prefix):
        self.sh = shared
        self.contract = contract
        self.root_contract = contract
        self.registry = registry
        self.prefix = prefix
        self.trace = []
        self.pending = []
        self.pc = []
        self.solver = DualSolver()
        self.lists = {}
        self.next_loc = 0
        self.heap = {}
        self.heap_init = {}
        self.heap0 = None
        self.alloc = None
        self.fresh_ctr = 0
        self.call_depth = 0
        self.cur_line = 0
        self.ghost = {}
        self.src_stack = []
        self.frames = []
        self.loop_iters = {}
        self.known = {}
        self.memo = {}
        self.nlab = smt.NLAbstraction()

    # ---------------------------------------------------------------- basic services
    def fresh_name(self, base):
        self.fresh_ctr += 1
        base = "".join(ch if (ch.isalnum() or ch in "_.$#") else "~" for ch in str(base))  # SMT-LIB simple symbol
        return "%s!%d" % (base, self.fresh_ctr)

    def assume(self, t):
        if isinstance(t, VBool):
            t = t.t
        t = simp(t)
        if z3.is_true(t):
            return
        self.pc.append(t)
        self.solver_add(t)
        self.note_known(t)

    def note_known(self, t):
        k = self.known
        k[t.get_id()] = (t, True)
        if z3.is_not(t):
            a = t.arg(0)
            k[a.get_id()] = (a, False)
        elif z3.is_and(t):
            for a in t.children():
                self.note_known(a)

    def solver_add(self, t):
        """The path solver sees nonlinear products abstracted by an uninterpreted function plus sound lemmas
        (over-approximation: 'unsat' answers stay valid; z3's nonlinear engine does not honour time-outs reliably)."""
        try:
            ta, lemmas = self.nlab.abstract(simp(t), self.cur_bounds())
        except RecursionError:
            ta, lemmas = t, []
        self.solver.add(ta)
        for l in lemmas:
            self.solver.add(l)

    def feasible(self, extra=None):
        self.solver.push()
        if extra is not None:
            self.solver_add(extra)
        r = self.solver.check()
        self.solver.pop()
        return r != z3.unsat

    def branch(self, cond):
        """Decide a symbolic condition on this path; records the alternative for later exploration."""
        if isinstance(cond, V):
            cond = self.truth(cond)
        c = simp(cond)
        if z3.is_true(c):
            return True
        if z3.is_false(c):
            return False
        kn = self.known.get(c.get_id())
        if kn is not None and kn[0].eq(c):
            return kn[1]
        iv = self.decide_iv(c)
        if iv is not None:
            self.assume(c if iv else z3.Not(c))
            return iv
        i = len(self.trace)
        if i < len(self.prefix):
            choice = self.prefix[i]
        else:
            t_ok = self.feasible(c)
            f_ok = self.feasible(z3.Not(c))
            if t_ok and f_ok:
                choice = True
                self.pending.append(self.trace + [False])
            elif t_ok:
                choice = True
            elif f_ok:
                choice = False
            else:
                raise PathEnd()
        self.trace.append(choice)
        self.assume(c if choice else z3.Not(c))
        return choice

    def prove(self, goal, kind, label, line=None, assume_after=True, try_hyps=None):
        """Emit the obligation pc => goal."""
        if isinstance(goal, V):
            goal = self.truth(goal)
        g = simp(goal)
        ob = Obligation(self.sh.func_name, self.sh.variant_name, kind, label, line or self.cur_line)
        ob.path = tuple(self.trace)
        if z3.is_true(g):
            ob.status = "unsat"
            ob.backend = "simplifier"
        else:
            t0 = time.time()
            status = None
            vd = getattr(self.sh, "variant_deadline", None)
            if vd is not None and t0 > vd:
                # overall budget of this (function, variant) exhausted (only happens when many obligations time out, i.e. on changed
                # code): remaining obligations are left undecided instead of running for hours
                status, model, backend, secs = "unknown", None, "budget-exhausted", 0.0
            if status is None and smt._contains_quantifier(g):
                # a quantified goal that is literally (up to bound-variable names) one of the hypotheses: no solver needed
                try:
                    if any(smt.alpha_eq(g, f) for f in reversed(self.pc[-200:])):
                        status, model, backend, secs = "unsat", None, "alpha-equivalent hypothesis", 0.0
                except z3.Z3Exception:
                    pass
            if status is None and try_hyps is not None:
                # proof step with a focused hypothesis set (quantifier-free facts + the previous steps): fewer hypotheses is sound
                try:
                    r0 = smt._core_check(list(try_hyps) + [z3.Not(g)], min(4000, self.sh.timeout_ms), want_model=False, allow_sat=False)
                except z3.Z3Exception:
                    r0 = None
                if r0 is not None:
                    status, model, backend, secs = r0[0], None, r0[2] + "(focused-hyps)", 0.0
            n_entry = getattr(self, "pc_entry_len", None)
            if status is None and kind == "lemma" and n_entry is not None and n_entry < len(self.pc):
                # lemmas are usually pure arithmetic facts: try with the entry hypotheses only (parameter types + requires);
                # using fewer hypotheses is sound for 'unsat' and keeps nonlinear queries small and stable
                try:
                    r0 = smt._core_check(self.pc[:n_entry] + list(getattr(self, "lemma_facts", [])) + [z3.Not(g)], min(4000, self.sh.timeout_ms),
                                         want_model=False, allow_sat=False)
                except z3.Z3Exception:
                    r0 = None
                if r0 is not None:
                    status, model, backend, secs = r0[0], None, r0[2] + "(entry-hyps)", 0.0
            if status is None:
                status, model, backend, secs = smt.check_sat(self.pc + [z3.Not(g)], self.sh.timeout_ms)
                if status == "unknown" and not getattr(self.sh, "refute_bound", 0) and time.time() - t0 < 3 * self.sh.timeout_ms / 1000.0:
                    # one retry with a larger budget: verdicts must not flip to 'undecided' merely because the machine is busy
                    status, model, backend, secs = smt.check_sat(self.pc + [z3.Not(g)], self.sh.timeout_ms * 3)
                    backend = backend + "(retry)"
            ob.status = status
            ob.backend = backend
            ob.secs = time.time() - t0
            if status == "sat":
                ob.model = self.model_to_dict(model) if model is not None else None
            if len(self.sh.sample_texts) < 6 and not z3.is_false(g):
                txt = "(=> (and %s) %s)" % (" ".join(str(p).replace("\n", " ") for p in self.pc[-6:]), str(g).replace("\n", " "))
                ob.text = txt[:600]
                self.sh.sample_texts.append(txt[:600])
        self.sh.obligations.append(ob)
        if assume_after:
            self.assume(g)
            if kind == "lemma":
                if not hasattr(self, "lemma_facts"):
                    self.lemma_facts = []
                self.lemma_facts.append(g)
        return ob.status == "unsat"

    def model_to_dict(self, model):
        out = {}
        for name, v in getattr(self, "param_syms", {}).items():
            try:
                out[name] = self.concretise(v, model)
            except Exception as e:  # pragma: no cover
                out[name] = "<%s>" % e
        return out

    def concretise(self, v, model):
        """Model value of a symbolic V as a JSON-able description."""
        ev = lambda t: model.eval(t, model_completion=True)
        if isinstance(v, VInt):
            val = ev(v.t).as_long()
            if v.np:
                return {"np": "%sint%d" % ("" if v.np[1] else "u", v.np[0]), "v": val}
            return val
        if isinstance(v, VBool):
            return bool(z3.is_true(ev(v.t)))
        if isinstance(v, VFloat):
            r = ev(v.t)
            if z3.is_fp(r):
                bv = ev(z3.fpToIEEEBV(r)).as_long()
                if v.kind == "f64":
                    f = _struct.unpack("<d", _struct.pack("<Q", bv))[0]
                else:
                    f = _struct.unpack("<f", _struct.pack("<I", bv))[0]
                return {"float": v.kind, "isnp": v.isnp, "hex": float(f).hex(), "v": repr(f)}
            return {"real": str(r)}
        if isinstance(v, VNone):
            return None
        if isinstance(v, VStr):
            return v.s
        if isinstance(v, VStrSym):
            return {"str_id": ev(v.t).as_long()}
        if isinstance(v, VTuple):
            d = [self.concretise(x, model) for x in v.items]
            if v.cls is not None:
                return {"nt": v.cls.__name__, "items": d}
            return {"tuple": d}
        if isinstance(v, VEnum):
            idx = ev(v.t).as_long()
            members = enum_members(v.cls)
            return {"enum": v.cls.__name__, "member": members[idx % len(members)].name}
        if isinstance(v, VOpt):
            if z3.is_true(ev(v.is_none)):
                return None
            return self.concretise(v.val, model)
        if isinstance(v, VStruct):
            return {"struct": getattr(v.cls, "__name__", str(v.cls)), "fields": {k: self.concretise(x, model) for k, x in v.fields.items()}}
        if isinstance(v, VMap):
            return {"dict": {str(k): self.concretise(x, model) for k, x in v.d.items()}}
        if isinstance(v, VList):
            st = self.lists0.get(v.loc) if hasattr(self, "lists0") and not isinstance(v.loc, tuple) else None
            if st is None:
                return "<list>"
            if st[0] == "conc":
                return [self.concretise(x, model) for x in st[1]]
            n_full = ev(st[1]).as_long()
            n = max(0, min(n_full, 64))
            items = []
            for i in range(n):
                leaves = [z3.Select(a, z3.IntVal(i)) for a in st[2]]
                items.append(self.concretise(self.from_leaves(leaves, st[3]), model))
            if n_full > 64:
                return {"list_len": n_full, "head": items}
            return items
        if isinstance(v, VObj):
            out = {"obj": getattr(v.cls, "__name__", str(v.cls)), "ref": ev(v.t).as_long()}
            depth = getattr(self, "_conc_depth", 0)
            if isinstance(v.cls, MapCls) and depth < 4:
                self._conc_depth = depth + 1
                try:
                    out["entries"] = self._conc_map(v, model)
                except Exception as e:  # pragma: no cover
                    out["entries_error"] = str(e)[:80]
                finally:
                    self._conc_depth = depth
                return out
            fields = self.registry.class_fields.get(v.cls)
            if fields and depth < 4 and not isinstance(v.cls, MapCls):
                self._conc_depth = depth + 1
                try:
                    fv = {}
                    for fname, ft in fields.items():
                        try:
                            fv[fname] = self._conc_field(v, fname, ft, model)
                        except Exception as e:  # pragma: no cover
                            fv[fname] = "<%s>" % (str(e)[:60],)
                    out["fields"] = fv
                finally:
                    self._conc_depth = depth
            return out
        return "<%s>" % type(v).__name__

    def _conc_map(self, mobj, model):
        """Entry-state contents of a heap map in the model: [[key, value], ...] for the keys the model makes present. Candidate keys:
        indices of the model's array value (store chain / function interpretation) plus every small integer the model mentions."""
        ev = lambda t: model.eval(t, model_completion=True)
        heap0 = self.heap0 if self.heap0 is not None else self.heap
        arrs = self._map_arrays(mobj.cls)

        def arr(key, sort):
            a = heap0.get(key)
            if a is None:
                a = self.heap_init.get(key)
            if a is None:
                a = z3.Array(self.fresh_name("H." + key), z3.IntSort(), z3.ArraySort(z3.IntSort(), sort))
            return a
        pres = z3.Select(arr(arrs[0][0], arrs[0][1]), mobj.t)
        cands = set(range(0, 9))
        try:
            for d in model.decls():
                val = model[d]
                if z3.is_int_value(val):
                    cands.add(val.as_long())
        except Exception:
            pass
        pv = ev(pres)
        stack, seen = [pv], 0
        while stack and seen < 2000:
            t = stack.pop()
            seen += 1
            if z3.is_int_value(t):
                cands.add(t.as_long())
            elif z3.is_app(t):
                stack.extend(t.children())
        out = []
        for k in sorted(cands):
            if len(out) >= 16:
                break
            if z3.is_true(ev(z3.Select(pres, z3.IntVal(k)))):
                leaves = [z3.Select(z3.Select(arr(hk, s_), mobj.t), z3.IntVal(k)) for hk, s_ in arrs[1:]]
                out.append([k, self.concretise(self.from_leaves(leaves, mobj.cls.valT), model)])
        return out

    def _conc_field(self, obj, fname, ft, model):
        """Entry-state value of a heap field in the model."""
        ev = lambda t: model.eval(t, model_completion=True)
        heap0 = self.heap0 if self.heap0 is not None else self.heap

        def arr(key, sort):
            a = heap0.get(key)
            if a is None:
                a = self.heap_init.get(key)
            if a is None:
                a = z3.Array(self.fresh_name("H." + key), z3.IntSort(), sort)
            return a
        if isinstance(ft, TList):
            n = ev(z3.Select(arr(fname + "#len", z3.IntSort()), obj.t)).as_long()
            items = []
            for i in range(max(0, min(n, 16))):
                leaves = [z3.Select(z3.Select(arr("%s#%s" % (fname, k), z3.ArraySort(z3.IntSort(), s_)), obj.t), z3.IntVal(i)) for k, s_ in self.leaf_sorts(ft.elem)]
                items.append(self.concretise(self.from_leaves(leaves, ft.elem), model))
            return items
        leaves = [z3.Select(arr("%s#%s" % (fname, k), s_), obj.t) for k, s_ in self.leaf_sorts(ft)]
        return self.concretise(self.from_leaves(leaves, ft), model)

    # ---------------------------------------------------------------- typing / fresh values
    def fresh(self, T_, name):
        if isinstance(T_, TInt):
            t = z3.Int(self.fresh_name(name))
            if T_.np:
                lo, hi = np_range(T_.np)
                self.assume(z3.And(t >= lo, t <= hi))
            if T_.lo is not None:
                self.assume(t >= T_.lo)
            if T_.hi is not None:
                self.assume(t <= T_.hi)
            return VInt(t, T_.np)
        if isinstance(T_, TStr):
            t = z3.Int(self.fresh_name(name))
            self.assume(t >= 0)
            return VStrSym(t)
        if isinstance(T_, TBool):
            return VBool(z3.Bool(self.fresh_name(name)))
        if isinstance(T_, TFloat):
            t = z3.FP(self.fresh_name(name), fsort(T_.kind))
            return VFloat(t, T_.kind, T_.isnp)
        if isinstance(T_, TNone):
            return NONE
        if isinstance(T_, TTuple):
            names = getattr(T_.cls, "_fields", None) if T_.cls else None
            return VTuple(
                [self.fresh(it, "%s.%s" % (name, names[i] if names else i)) for i, it in enumerate(T_.items)], T_.cls
            )
        if isinstance(T_, TEnum):
            t = z3.Int(self.fresh_name(name))
            members = enum_members(T_.cls)
            if T_.members is not None:
                idxs = [members.index(m) for m in T_.members]
                self.assume(z3.Or([t == i for i in idxs]))
            else:
                self.assume(z3.And(t >= 0, t < len(members)))
            return VEnum(T_.cls, t)
        if isinstance(T_, TOpt):
            return VOpt(z3.Bool(self.fresh_name(name + ".is_none")), self.fresh(T_.elem, name))
        if isinstance(T_, TStruct):
            return VStruct(T_.cls, {k: self.fresh(ft, "%s.%s" % (name, k)) for k, ft in T_.fields.items()})
        if isinstance(T_, TConst):
            return self.lift(T_.value)
        if isinstance(T_, TList):
            loc = self.new_loc()
            n = z3.Int(self.fresh_name(name + ".len"))
            self.assume(z3.And(n >= 0, n < (1 << 48)))  # physical bound on list lengths (address space)
            if T_.maxlen is not None:
                self.assume(n <= T_.maxlen)
            arrs = [z3.Array(self.fresh_name("%s.%s" % (name, k)), z3.IntSort(), s) for k, s in self.leaf_sorts(T_.elem)]
            self.lists[loc] = ["sym", n, arrs, T_.elem]
            self.assume_list_wf(self.lists[loc])
            return VList(loc)
        if isinstance(T_, TDict):
            return VMap({k: self.fresh(ft, "%s[%s]" % (name, k)) for k, ft in T_.fields.items()})
        if isinstance(T_, (TObj, TMap)):
            t = z3.Int(self.fresh_name(name))
            self.assume(z3.And(t >= 1, t < self.alloc_term()))
            return VObj(T_.cls, t)
        if isinstance(T_, TOpaque):
            return VOpaque(z3.Const(self.fresh_name(name), z3.DeclareSort(T_.tag)), T_.tag)
        raise Unsupported("fresh of %r" % (T_,))

    def alloc_term(self):
        if self.alloc is None:
            self.alloc = z3.Int(self.fresh_name("$alloc"))
            self.assume(self.alloc >= 1)
        return self.alloc

    def new_object(self, cls):
        a = self.alloc_term()
        ref = a
        self.alloc = a + 1
        return VObj(cls, ref)

    def leaf_sorts(self, T_):
        """Flatten a type into named leaves [(key, z3 sort)]."""
        if isinstance(T_, TInt):
            return [("i", z3.IntSort())]
        if isinstance(T_, TBool):
            return [("b", z3.BoolSort())]
        if isinstance(T_, TFloat):
            return [("f", fsort(T_.kind))]
        if isinstance(T_, (TEnum, TObj, TStr, TMap)):
            return [("e", z3.IntSort())]
        if isinstance(T_, TTuple):
            out = []
            for i, it in enumerate(T_.items):
                out += [("%d.%s" % (i, k), s) for k, s in self.leaf_sorts(it)]
            return out
        if isinstance(T_, TOpt):
            return [("none", z3.BoolSort())] + self.leaf_sorts(T_.elem)
        if isinstance(T_, TStruct):
            out = []
            for f, ft in T_.fields.items():
                out += [("%s.%s" % (f, k), s) for k, s in self.leaf_sorts(ft)]
            return out
        if isinstance(T_, TNone):
            return []
        raise Unsupported("list element type %r" % (T_,))

    def to_leaves(self, v, T_):
        if isinstance(T_, TInt):
            v = self.force(v)
            if isinstance(v, VBool):
                v = VInt(z3.If(v.t, 1, 0))
            if not isinstance(v, VInt):
                raise Unsupported("expected int leaf, got %r" % (v,))
            return [v.t]
        if isinstance(T_, TBool):
            return [self.truth(v)]
        if isinstance(T_, TFloat):
            return [self.to_float(v, T_.kind).t]
        if isinstance(T_, TEnum):
            if not isinstance(v, VEnum):
                raise Unsupported("expected enum leaf")
            return [v.t]
        if isinstance(T_, (TObj, TMap)):
            if not isinstance(v, VObj):
                raise Unsupported("expected obj leaf, got %r" % (v,))
            return [v.t]
        if isinstance(T_, TStr):
            if isinstance(v, VStr):
                return [z3.IntVal(intern_str(v.s))]
            if not isinstance(v, VStrSym):
                raise Unsupported("expected str leaf, got %r" % (v,))
            return [v.t]
        if isinstance(T_, TTuple):
            v = self.force(v)
            if isinstance(v, VTuple) and len(v.items) < len(T_.items) and all(isinstance(x, TOpt) for x in T_.items[len(v.items):]):
                v = VTuple(v.items + [NONE] * (len(T_.items) - len(v.items)), v.cls)  # short tuple: optional tail absent
            if not isinstance(v, VTuple) or len(v.items) != len(T_.items):
                raise Unsupported("expected tuple of %d, got %r" % (len(T_.items), v))
            out = []
            for x, it in zip(v.items, T_.items):
                out += self.to_leaves(x, it)
            return out
        if isinstance(T_, TOpt):
            if isinstance(v, VNone):
                return [z3.BoolVal(True)] + self.default_leaves(T_.elem)
            if isinstance(v, VOpt):
                return [v.is_none] + self.to_leaves(v.val, T_.elem)
            return [z3.BoolVal(False)] + self.to_leaves(v, T_.elem)
        if isinstance(T_, TStruct):
            out = []
            for f, ft in T_.fields.items():
                out += self.to_leaves(v.fields[f], ft)
            return out
        if isinstance(T_, TNone):
            return []
        raise Unsupported("to_leaves %r" % (T_,))

    def default_leaves(self, T_):
        out = []
        for k, s in self.leaf_sorts(T_):
            if s == z3.IntSort():
                out.append(z3.IntVal(0))
            elif s == z3.BoolSort():
                out.append(z3.BoolVal(False))
            else:
                out.append(z3.FPVal(0.0, s))
        return out

    def from_leaves(self, leaves, T_, assume_wf=False):
        v, rest = self._from_leaves(list(leaves), T_, assume_wf)
        return v

    def _from_leaves(self, leaves, T_, wf):
        if isinstance(T_, TInt):
            t = leaves.pop(0)
            if wf and T_.np:
                lo, hi = np_range(T_.np)
                self.assume(z3.And(t >= lo, t <= hi))
            if wf and T_.lo is not None:
                self.assume(t >= T_.lo)
            if wf and T_.hi is not None:
                self.assume(t <= T_.hi)
            return VInt(t, T_.np), leaves
        if isinstance(T_, TBool):
            return VBool(leaves.pop(0)), leaves
        if isinstance(T_, TFloat):
            return VFloat(leaves.pop(0), T_.kind, T_.isnp), leaves
        if isinstance(T_, TEnum):
            t = leaves.pop(0)
            if wf:
                self.assume(z3.And(t >= 0, t < len(enum_members(T_.cls))))
            return VEnum(T_.cls, t), leaves
        if isinstance(T_, (TObj, TMap)):
            t = leaves.pop(0)
            if wf:
                self.assume(z3.And(t >= 1, t < self.alloc_term()))
            return VObj(T_.cls, t), leaves
        if isinstance(T_, TStr):
            return VStrSym(leaves.pop(0)), leaves
        if isinstance(T_, TTuple):
            items = []
            for it in T_.items:
                x, leaves = self._from_leaves(leaves, it, wf)
                items.append(x)
            return VTuple(items, T_.cls), leaves
        if isinstance(T_, TOpt):
            isn = leaves.pop(0)
            x, leaves = self._from_leaves(leaves, T_.elem, wf)
            return VOpt(isn, x), leaves
        if isinstance(T_, TStruct):
            fields = {}
            for f, ft in T_.fields.items():
                fields[f], leaves = self._from_leaves(leaves, ft, wf)
            return VStruct(T_.cls, fields), leaves
        if isinstance(T_, TNone):
            return NONE, leaves
        raise Unsupported("from_leaves %r" % (T_,))

    def type_of(self, v):
        if isinstance(v, VInt):
            return TInt(v.np)
        if isinstance(v, VBool):
            return TBool()
        if isinstance(v, VFloat):
            return TFloat(v.kind, v.isnp)
        if isinstance(v, VEnum):
            return TEnum(v.cls)
        if isinstance(v, VObj):
            return TMap(v.cls.valT) if isinstance(v.cls, MapCls) else TObj(v.cls)
        if isinstance(v, (VStr, VStrSym)):
            return TStr()
        if isinstance(v, VTuple):
            return TTuple(*[self.type_of(x) for x in v.items], cls=v.cls)
        if isinstance(v, VOpt):
            return TOpt(self.type_of(v.val))
        if isinstance(v, VNone):
            return TNone()
        if isinstance(v, VStruct):
            return TStruct(v.cls, **{k: self.type_of(x) for k, x in v.fields.items()})
        raise Unsupported("type_of %r" % (v,))

    def join_types(self, a, b):
        if isinstance(a, TNone) and isinstance(b, TNone):
            return a
        if isinstance(a, TNone):
            return b if isinstance(b, TOpt) else TOpt(b)
        if isinstance(b, TNone):
            return a if isinstance(a, TOpt) else TOpt(a)
        if isinstance(a, TOpt) and not isinstance(b, TOpt):
            return TOpt(self.join_types(a.elem, b))
        if isinstance(b, TOpt) and not isinstance(a, TOpt):
            return TOpt(self.join_types(a, b.elem))
        if isinstance(a, TOpt) and isinstance(b, TOpt):
            return TOpt(self.join_types(a.elem, b.elem))
        if isinstance(a, TTuple) and isinstance(b, TTuple) and len(a.items) == len(b.items):
            return TTuple(*[self.join_types(x, y) for x, y in zip(a.items, b.items)], cls=a.cls)
        if repr(a) != repr(b):
            raise Unsupported("heterogeneous list elements: %r vs %r" % (a, b))
        return a

    def havoc_like(self, v, name):
        """Fresh value of the same shape as v (used at loop cut points)."""
        if isinstance(v, (VNone, VStr, VNative, VClosure, VBound)):
            return v
        if isinstance(v, VList):
            st = self.lists[v.loc] if not isinstance(v.loc, tuple) else None
            if st is None:
                raise Unsupported("havoc of heap list through local name")
            return v
        return self.fresh(self.type_of(v), name)

    # ---------------------------------------------------------------- lists
    def leaf_bounds(self, T_):
        """Per leaf: (lo, hi) integer bounds implied by the declared type, or None."""
        if isinstance(T_, TInt):
            lo, hi = (None, None)
            if T_.np:
                lo, hi = np_range(T_.np)
            if T_.lo is not None:
                lo = T_.lo if lo is None else max(lo, T_.lo)
            if T_.hi is not None:
                hi = T_.hi if hi is None else min(hi, T_.hi)
            return [(lo, hi)]
        if isinstance(T_, TEnum):
            return [(0, len(enum_members(T_.cls)) - 1)]
        if isinstance(T_, (TBool, TFloat)):
            return [None]
        if isinstance(T_, (TObj, TMap, TStr)):
            return [None]
        if isinstance(T_, TTuple):
            out = []
            for it in T_.items:
                out += self.leaf_bounds(it)
            return out
        if isinstance(T_, TOpt):
            return [None] + [None for _ in self.leaf_bounds(T_.elem)]
        if isinstance(T_, TStruct):
            out = []
            for ft in T_.fields.values():
                out += self.leaf_bounds(ft)
            return out
        return [None for _ in self.leaf_sorts(T_)]

    def assume_list_wf(self, st):
        """forall j in [0, len): every bounded leaf of element j lies in its declared range."""
        bounds = self.leaf_bounds(st[3])
        j = z3.Int(self.fresh_name("wf"))
        cs = []
        for a, b in zip(st[2], bounds):
            if b is None:
                continue
            lo, hi = b
            if lo is not None:
                cs.append(z3.Select(a, j) >= lo)
            if hi is not None:
                cs.append(z3.Select(a, j) <= hi)
        if cs:
            self.assume(z3.ForAll([j], z3.Implies(z3.And(j >= 0, j < st[1]), z3.And(cs))))

    def new_loc(self):
        self.next_loc += 1
        return self.next_loc

    def new_list(self, items):
        loc = self.new_loc()
        self.lists[loc] = ["conc", list(items)]
        return VList(loc)

    def _lst(self, lv):
        loc = lv.loc
        if isinstance(loc, tuple):
            return self._heap_list(loc)
        return self.lists[loc]

    def _heap_list(self, loc):
        _, field, ref = loc
        ft = self.field_type(field)
        if not isinstance(ft, TList):
            raise Unsupported("heap list field %s" % field)
        lenarr = self.heap_arr(field + "#len", z3.IntSort())
        n_ = z3.Select(lenarr, ref)
        self.assume(z3.And(n_ >= 0, n_ < (1 << 48)))   # well-formedness of list objects on the heap
        arrs = []
        for k, s in self.leaf_sorts(ft.elem):
            arrs.append(z3.Select(self.heap_arr("%s#%s" % (field, k), z3.ArraySort(z3.IntSort(), s)), ref))
        return ["sym", z3.Select(lenarr, ref), arrs, ft.elem]

    def _store_heap_list(self, loc, st):
        _, field, ref = loc
        ft = self.field_type(field)
        self.heap[field + "#len"] = z3.Store(self.heap_arr(field + "#len", z3.IntSort()), ref, st[1])
        for (k, s), a in zip(self.leaf_sorts(ft.elem), st[2]):
            key = "%s#%s" % (field, k)
            self.heap[key] = z3.Store(self.heap_arr(key, z3.ArraySort(z3.IntSort(), s)), ref, a)

    def to_sym_list(self, lv, elemT=None):
        st = self._lst(lv)
        if st[0] == "sym":
            return st
        items = st[1]
        if elemT is None:
            if not items:
                raise Unsupported("cannot type an empty concrete list symbolically")
            elemT = self.type_of(items[0])
            for x in items[1:]:
                elemT = self.join_types(elemT, self.type_of(x))
        sorts = self.leaf_sorts(elemT)
        arrs = [z3.K(z3.IntSort(), d) for d in self.default_leaves(elemT)]
        for i, x in enumerate(items):
            lv_ = self.to_leaves(x, elemT)
            arrs = [z3.Store(a, z3.IntVal(i), t) for a, t in zip(arrs, lv_)]
        new = ["sym", z3.IntVal(len(items)), arrs, elemT]
        if not isinstance(lv.loc, tuple):
            self.lists[lv.loc] = new
        return new

    def list_len(self, lv):
        st = self._lst(lv)
        if st[0] == "conc":
            return z3.IntVal(len(st[1]))
        return st[1]

    def list_get(self, lv, idx, check=True):
        st = self._lst(lv)
        n = self.list_len(lv)
        ci = conc_int(idx)
        if st[0] == "conc":
            if ci is None:
                st = self.to_sym_list(lv)
            else:
                if not (-len(st[1]) <= ci < len(st[1])):
                    raise PyRaise(IndexError, "list index out of range", self.cur_line)
                return st[1][ci]
        if check and not (getattr(self, "in_clause", False) or getattr(self, "in_quant", 0)):
            ok = z3.And(idx >= -n, idx < n)
            if not self.branch(ok):
                raise PyRaise(IndexError, "list index out of range", self.cur_line)
        i = idx
        if ci is None or ci < 0:
            i = z3.If(idx < 0, idx + n, idx)
        leaves = [z3.Select(a, i) for a in st[2]]
        return self.from_leaves(leaves, st[3], assume_wf=True)

    def list_set(self, lv, idx, val):
        st = self._lst(lv)
        ci = conc_int(idx)
        if st[0] == "conc" and ci is not None:
            if not (-len(st[1]) <= ci < len(st[1])):
                raise PyRaise(IndexError, "list assignment index out of range", self.cur_line)
            st[1][ci] = val
            return
        st = self.to_sym_list(lv)
        n = st[1]
        if not self.branch(z3.And(idx >= -n, idx < n)):
            raise PyRaise(IndexError, "list assignment index out of range", self.cur_line)
        i = z3.If(idx < 0, idx + n, idx)
        leaves = self.to_leaves(val, st[3])
        st[2] = [z3.Store(a, i, t) for a, t in zip(st[2], leaves)]
        self._commit(lv, st)

    def _commit(self, lv, st):
        if isinstance(lv.loc, tuple):
            self._store_heap_list(lv.loc, st)
        else:
            self.lists[lv.loc] = st

    def list_append(self, lv, val):
        st = self._lst(lv)
        if st[0] == "conc":
            st[1].append(val)
            return
        leaves = self.to_leaves(val, st[3])
        st = ["sym", st[1] + 1, [z3.Store(a, st[1], t) for a, t in zip(st[2], leaves)], st[3]]
        self._commit(lv, st)

    def list_pop0(self, lv):
        """list.pop(0)"""
        st = self._lst(lv)
        if st[0] == "conc":
            if not st[1]:
                raise PyRaise(IndexError, "pop from empty list", self.cur_line)
            return st[1].pop(0)
        n = st[1]
        if not self.branch(n > 0):
            raise PyRaise(IndexError, "pop from empty list", self.cur_line)
        first = self.from_leaves([z3.Select(a, z3.IntVal(0)) for a in st[2]], st[3], assume_wf=True)
        j = z3.Int(self.fresh_name("j"))
        newarrs = []
        for a in st[2]:
            na = z3.Array(self.fresh_name("popped"), z3.IntSort(), a.sort().range())
            self.assume(z3.ForAll([j], z3.Select(na, j) == z3.Select(a, j + 1)))
            newarrs.append(na)
        self._commit(lv, ["sym", n - 1, newarrs, st[3]])
        return first

    def list_pop_last(self, lv):
        st = self._lst(lv)
        if st[0] == "conc":
            if not st[1]:
                raise PyRaise(IndexError, "pop from empty list", self.cur_line)
            return st[1].pop()
        n = st[1]
        if not self.branch(n > 0):
            raise PyRaise(IndexError, "pop from empty list", self.cur_line)
        last = self.from_leaves([z3.Select(a, n - 1) for a in st[2]], st[3], assume_wf=True)
        self._commit(lv, ["sym", n - 1, st[2], st[3]])
        return last

    def list_extend(self, lv, other):
        so = self._lst(other) if isinstance(other, VList) else None
        if isinstance(other, VTuple):
            for x in other.items:
                self.list_append(lv, x)
            return
        if so is None:
            raise Unsupported("extend with %r" % (other,))
        if so[0] == "conc":
            for x in list(so[1]):
                self.list_append(lv, x)
            return
        st = self._lst(lv)
        if st[0] == "conc" and not st[1]:
            st = ["sym", z3.IntVal(0), [z3.K(z3.IntSort(), d) for d in self.default_leaves(so[3])], so[3]]
        else:
            st = self.to_sym_list(lv)
        n, m = st[1], so[1]
        j = z3.Int(self.fresh_name("j"))
        newarrs = []
        for a, b in zip(st[2], so[2]):
            na = z3.Array(self.fresh_name("ext"), z3.IntSort(), a.sort().range())
            self.assume(z3.ForAll([j], z3.Select(na, j) == z3.If(j < n, z3.Select(a, j), z3.Select(b, j - n))))
            newarrs.append(na)
        self._commit(lv, ["sym", n + m, newarrs, st[3]])

    def list_copy(self, lv):
        st = self._lst(lv)
        loc = self.new_loc()
        if st[0] == "conc":
            self.lists[loc] = ["conc", list(st[1])]
        else:
            self.lists[loc] = ["sym", st[1], list(st[2]), st[3]]
        return VList(loc)

    def havoc_list(self, lv, name, elemT=None):
        st = self._lst(lv)
        if st[0] == "conc":
            st = self.to_sym_list(lv, elemT)
        n = z3.Int(self.fresh_name(name + ".len"))
        self.assume(n >= 0)
        arrs = [z3.Array(self.fresh_name(name), z3.IntSort(), a.sort().range()) for a in st[2]]
        new = ["sym", n, arrs, st[3]]
        self._commit(lv, new)
        self.assume_list_wf(new)

    # ---------------------------------------------------------------- heap
    def field_type(self, field):
        ft = self.registry.field_types.get(field)
        if ft is None:
            raise Unsupported("heap field %r has no declared type" % field)
        return ft

    def heap_arr(self, key, sort):
        """Current array of a heap leaf. Arrays are created lazily; the initial (entry-state) array of a leaf is unique
        per path, so that old(...) and the code agree on it no matter which of them touches the leaf first."""
        if key not in self.heap:
            init = self.heap_init.get(key)
            if init is None:
                init = z3.Array(self.fresh_name("H." + key), z3.IntSort(), sort)
                self.heap_init[key] = init
            self.heap[key] = init
        return self.heap[key]

    def heap_read(self, obj, field):
        ft = self.field_type(field)
        if isinstance(ft, TList):
            return VList(("heap", field, obj.t))
        leaves = []
        for k, s in self.leaf_sorts(ft):
            leaves.append(z3.Select(self.heap_arr("%s#%s" % (field, k), s), obj.t))
        return self.from_leaves(leaves, ft, assume_wf=True)

    def heap_write(self, obj, field, val):
        ft = self.field_type(field)
        if isinstance(ft, TList):
            if not isinstance(val, VList):
                raise Unsupported("assigning non-list to list field")
            st = self.to_sym_list(val, ft.elem) if self._lst(val)[0] == "conc" else self._lst(val)
            if self._lst(val)[0] == "conc":
                st = self.to_sym_list(val, ft.elem)
            self._store_heap_list(("heap", field, obj.t), st)
            return
        leaves = self.to_leaves(val, ft)
        for (k, s), t in zip(self.leaf_sorts(ft), leaves):
            key = "%s#%s" % (field, k)
            self.heap[key] = z3.Store(self.heap_arr(key, s), obj.t, t)

    def havoc_cell(self, obj, field):
        """Havoc field `field` of the single object `obj` (all leaves; for list fields length and contents)."""
        ft = self.field_type(field)
        keys = []
        if isinstance(ft, TList):
            keys.append((field + "#len", z3.IntSort()))
            for k, s_ in self.leaf_sorts(ft.elem):
                keys.append(("%s#%s" % (field, k), z3.ArraySort(z3.IntSort(), s_)))
        else:
            for k, s_ in self.leaf_sorts(ft):
                keys.append(("%s#%s" % (field, k), s_))
        for key, s_ in keys:
            arr = self.heap_arr(key, s_)
            fv = z3.Const(self.fresh_name("hv." + key), s_)
            self.heap[key] = z3.Store(arr, obj.t, fv)
        if isinstance(ft, TList):
            n_ = z3.Select(self.heap[field + "#len"], obj.t)
            self.assume(z3.And(n_ >= 0, n_ < (1 << 48)))

    def havoc_field(self, field):
        for key in list(self.heap.keys()):
            if key.split("#")[0] == field:
                self.heap[key] = z3.Array(self.fresh_name("H." + key), z3.IntSort(), self.heap[key].sort().range())
        # make sure all leaves exist (fresh arrays are created lazily otherwise, which is equivalent)

    # ---------------------------------------------------------------- heap maps
    ENUM_KEY_BASE = {}

    def map_key(self, v):
        """Integer encoding of a map key (enum member, int or string)."""
        v = self.force(v)
        if isinstance(v, VEnum):
            base = Engine.ENUM_KEY_BASE.setdefault(v.cls, (len(Engine.ENUM_KEY_BASE) + 1) * (1 << 20))
            return base + v.t
        if isinstance(v, VStr):
            return z3.IntVal(intern_str(v.s))
        if isinstance(v, VStrSym):
            return v.t
        if isinstance(v, VTuple) and len(v.items) == 2:
            # pair of non-negative integers (e.g. WeightKey(core, depth)): injective pairing a * 2**40 + b; the range facts that make
            # it injective are side obligations (a failure is a limit of the model, not a violation)
            a, b = self.as_int(self.force(v.items[0])), self.as_int(self.force(v.items[1]))
            if a is not None and b is not None:
                cond = z3.And(a.t >= 0, b.t >= 0, b.t < (1 << 40))
                if not z3.is_true(simp(cond)) and not self.in_clause and not self.in_quant:
                    self.prove(cond, "model_limit", "tuple map key components within [0, 2**40)", self.cur_line)
                return a.t * (1 << 40) + b.t
        if isinstance(v, VObj):
            return v.t         # objects as dict keys: identity (the classes used as keys do not define __eq__ / __hash__)
        iv = self.as_int(v)
        if iv is not None:
            return iv.t
        raise Unsupported("map key %r" % (v,))

    def _map_arrays(self, mcls):
        """[(heap key, value sort)] for the presence flag and the value leaves of maps of this class."""
        out = [("map$%s#present" % mcls.tag, z3.BoolSort())]
        for k, s_ in self.leaf_sorts(mcls.valT):
            out.append(("map$%s#%s" % (mcls.tag, k), s_))
        return out

    def map_get(self, mobj, key):
        """m[key] of a defaultdict(lambda: None)-like map: None when absent."""
        k = self.map_key(key)
        arrs = self._map_arrays(mobj.cls)
        sel = [z3.Select(z3.Select(self.heap_arr(hk, z3.ArraySort(z3.IntSort(), s_)), mobj.t), k) for hk, s_ in arrs]
        val = self.from_leaves(sel[1:], mobj.cls.valT, assume_wf=False)
        return VOpt(z3.Not(sel[0]), val)

    def map_set(self, mobj, key, value):
        k = self.map_key(key)
        arrs = self._map_arrays(mobj.cls)
        value = self.force(value) if isinstance(value, VOpt) else value
        if isinstance(value, VNone):
            leaves = [z3.BoolVal(False)] + self.default_leaves(mobj.cls.valT)
        else:
            leaves = [z3.BoolVal(True)] + self.to_leaves(value, mobj.cls.valT)
        for (hk, s_), t in zip(arrs, leaves):
            outer = self.heap_arr(hk, z3.ArraySort(z3.IntSort(), s_))
            self.heap[hk] = z3.Store(outer, mobj.t, z3.Store(z3.Select(outer, mobj.t), k, t))

    def map_havoc_key(self, mobj, key):
        k = self.map_key(key)
        for hk, s_ in self._map_arrays(mobj.cls):
            outer = self.heap_arr(hk, z3.ArraySort(z3.IntSort(), s_))
            fv = z3.Const(self.fresh_name("mapv"), s_)
            self.heap[hk] = z3.Store(outer, mobj.t, z3.Store(z3.Select(outer, mobj.t), k, fv))

    def map_items(self, mobj):
        """Snapshot of the (key, value) pairs of an int-keyed heap map as a symbolic list in an arbitrary but fixed order
        (dict iteration order is not modelled): keys pairwise distinct, exactly the present keys. Memoised per heap state so that
        two mentions (code and clause) denote the same list."""
        arrs = self._map_arrays(mobj.cls)
        cur = [self.heap_arr(hk, z3.ArraySort(z3.IntSort(), s_)) for hk, s_ in arrs]
        mkey = ("map_items", mobj.t.get_id()) + tuple(a.get_id() for a in cur)
        hit = self.memo.get(mkey)
        if hit is not None:
            return hit
        n = z3.Int(self.fresh_name("items.len"))
        karr = z3.Array(self.fresh_name("items.key"), z3.IntSort(), z3.IntSort())
        idx = z3.Function(self.fresh_name("items.idx"), z3.IntSort(), z3.IntSort())
        present = z3.Select(cur[0], mobj.t)
        j = z3.Int(self.fresh_name("ij"))
        k = z3.Int(self.fresh_name("ik"))
        self.assume(n >= 0)
        # every listed key is present, and idx is the inverse of the listing (hence keys are pairwise distinct)
        self.assume(z3.ForAll([j], z3.Implies(z3.And(j >= 0, j < n), z3.And(z3.Select(present, z3.Select(karr, j)), idx(z3.Select(karr, j)) == j)),
                              patterns=[z3.Select(karr, j)]))
        # every present key is listed
        self.assume(z3.ForAll([k], z3.Implies(z3.Select(present, k), z3.And(idx(k) >= 0, idx(k) < n, z3.Select(karr, idx(k)) == k)),
                              patterns=[z3.Select(present, k)]))
        elemT = TTuple(PyInt, mobj.cls.valT)
        varrs = []
        for (hk, s_), a in list(zip(arrs, cur))[1:]:
            va = z3.Array(self.fresh_name("items.val"), z3.IntSort(), s_)
            self.assume(z3.ForAll([j], z3.Implies(z3.And(j >= 0, j < n), z3.Select(va, j) == z3.Select(z3.Select(a, mobj.t), z3.Select(karr, j))),
                                  patterns=[z3.Select(va, j)]))
            varrs.append(va)
        loc = self.new_loc()
        self.lists[loc] = ["sym", n, [karr] + varrs, elemT]
        out = VList(loc)
        self.memo[mkey] = out
        return out

    def map_common_keys(self, maps):
        """Keys present in ALL the given int-keyed heap maps, as a duplicate-free symbolic list in arbitrary order (one map: its keys)."""
        if len(maps) == 1:
            items = self.map_items(maps[0])
            st = self._lst(items)
            loc = self.new_loc()
            self.lists[loc] = ["sym", st[1], [st[2][0]], PyInt]
            return VList(loc)
        pres = []
        ids = []
        for m in maps:
            hk, s_ = self._map_arrays(m.cls)[0]
            arr = self.heap_arr(hk, z3.ArraySort(z3.IntSort(), s_))
            pres.append(z3.Select(arr, m.t))
            ids += [m.t.get_id(), arr.get_id()]
        mkey = ("map_common_keys",) + tuple(ids)
        hit = self.memo.get(mkey)
        if hit is not None:
            return hit
        n = z3.Int(self.fresh_name("ckeys.len"))
        karr = z3.Array(self.fresh_name("ckeys.key"), z3.IntSort(), z3.IntSort())
        idx = z3.Function(self.fresh_name("ckeys.idx"), z3.IntSort(), z3.IntSort())
        j = z3.Int(self.fresh_name("cj"))
        k = z3.Int(self.fresh_name("ck"))
        self.assume(n >= 0)
        self.assume(z3.ForAll([j], z3.Implies(z3.And(j >= 0, j < n), z3.And([z3.Select(p, z3.Select(karr, j)) for p in pres] + [idx(z3.Select(karr, j)) == j])),
                              patterns=[z3.Select(karr, j)]))
        self.assume(z3.ForAll([k], z3.Implies(z3.And([z3.Select(p, k) for p in pres]), z3.And(idx(k) >= 0, idx(k) < n, z3.Select(karr, idx(k)) == k)),
                              patterns=[z3.MultiPattern(*[z3.Select(p, k) for p in pres])]))
        loc = self.new_loc()
        self.lists[loc] = ["sym", n, [karr], PyInt]
        out = VList(loc)
        self.memo[mkey] = out
        return out

    def new_map(self, valT):
        """Fresh empty map object."""
        mobj = self.new_object(MapCls(valT))
        hk, s_ = self._map_arrays(mobj.cls)[0]
        outer = self.heap_arr(hk, z3.ArraySort(z3.IntSort(), s_))
        self.heap[hk] = z3.Store(outer, mobj.t, z3.K(z3.IntSort(), z3.BoolVal(False)))
        return mobj

    # ---------------------------------------------------------------- lifting native values
    def lift(self, obj):
        if isinstance(obj, V):
            return obj
        if obj is None:
            return NONE
        if isinstance(obj, bool):
            return VBool(obj)
        if isinstance(obj, enum.Enum):
            return VEnum(type(obj), enum_members(type(obj)).index(obj))
        if isinstance(obj, np.bool_):
            return VBool(bool(obj))
        if isinstance(obj, np.integer):
            return VInt(int(obj), (obj.dtype.itemsize * 8, obj.dtype.kind == "i"))
        if isinstance(obj, int):
            return VInt(obj)
        if isinstance(obj, np.float32):
            return VFloat(z3.FPVal(float(obj), F32S), "f32", True)
        if isinstance(obj, np.floating):
            return VFloat(z3.FPVal(float(obj), F64S), "f64", True)
        if isinstance(obj, float):
            return VFloat(z3.FPVal(obj, F64S), "f64", False)
        if isinstance(obj, str):
            return VStr(obj)
        if isinstance(obj, tuple):
            cls = type(obj) if hasattr(obj, "_fields") else None
            return VTuple([self.lift(x) for x in obj], cls)
        if isinstance(obj, list):
            return self.new_list([self.lift(x) for x in obj])
        return VNative(obj)

    def lower(self, v):
        """Concrete native value of v, or raise ValueError if symbolic."""
        if isinstance(v, VNative):
            return v.obj
        if isinstance(v, VNone):
            return None
        if isinstance(v, VStr):
            return v.s
        if isinstance(v, VBool):
            b = conc_bool(v.t)
            if b is None:
                raise ValueError
            return b
        if isinstance(v, VInt):
            c = conc_int(v.t)
            if c is None:
                raise ValueError
            if v.np:
                return getattr(np, "%sint%d" % ("" if v.np[1] else "u", v.np[0]))(c)
            return c
        if isinstance(v, VEnum):
            c = conc_int(v.t)
            if c is None:
                raise ValueError
            return enum_members(v.cls)[c]
        if isinstance(v, VTuple):
            items = [self.lower(x) for x in v.items]
            return v.cls(*items) if v.cls else tuple(items)
        if isinstance(v, VFloat):
            t = simp(v.t)
            if z3.is_fp_value(t):
                bv = simp(z3.fpToIEEEBV(t)).as_long()
                if v.kind == "f64":
                    f = _struct.unpack("<d", _struct.pack("<Q", bv))[0]
                    return np.float64(f) if v.isnp else f
                return np.float32(_struct.unpack("<f", _struct.pack("<I", bv))[0])
            raise ValueError
        raise ValueError

    # ---------------------------------------------------------------- coercions
    def force(self, v):
        """Unwrap an Optional by case split. Inside clauses (pure, possibly under a quantifier) there is no forking:
        the payload is used as is; clauses must guard uses with `is not None` (natively they would raise otherwise)."""
        while isinstance(v, VOpt):
            if getattr(self, "in_clause", False) or getattr(self, "in_quant", 0):
                c = conc_bool(v.is_none)
                if c is True:
                    return NONE
                v = v.val
                continue
            if self.branch(v.is_none):
                return NONE
            v = v.val
        return v

    def force_inner(self, v):
        return v.val if isinstance(v, VOpt) else v

    @staticmethod
    def opt_parts(v):
        if isinstance(v, VOpt):
            return v.is_none, v.val
        if isinstance(v, VNone):
            return z3.BoolVal(True), None
        return z3.BoolVal(False), v

    def truth(self, v):
        """z3 Bool for Python truthiness of v."""
        v = self.force(v)
        if isinstance(v, VBool):
            return v.t
        if isinstance(v, VInt):
            return v.t != 0
        if isinstance(v, VNone):
            return z3.BoolVal(False)
        if isinstance(v, VFloat):
            return z3.Not(z3.fpIsZero(v.t))
        if isinstance(v, VList):
            return self.list_len(v) > 0
        if isinstance(v, VTuple):
            return z3.BoolVal(len(v.items) > 0)
        if isinstance(v, VStr):
            return z3.BoolVal(len(v.s) > 0)
        if isinstance(v, VStrSym):
            raise Unsupported("truthiness of a symbolic string")
        if isinstance(v, (VObj, VStruct, VNative, VEnum)):
            if isinstance(v, VEnum) and issubclass(v.cls, int):
                return self.enum_value(v).t != 0
            return z3.BoolVal(True)
        raise Unsupported("truthiness of %r" % (v,))

    def enum_value(self, v):
        members = enum_members(v.cls)
        c = conc_int(v.t)
        if c is not None:
            return self.lift(members[c].value)
        vals = [m.value for m in members]
        if all(isinstance(x, int) and not isinstance(x, bool) for x in vals):
            t = z3.IntVal(vals[-1])
            for i in range(len(vals) - 2, -1, -1):
                t = z3.If(v.t == i, z3.IntVal(vals[i]), t)
            return VInt(t)
        raise Unsupported("symbolic enum .value of non-int enum %s" % v.cls.__name__)

    def as_int(self, v):
        """VInt view of an int-like value (bool, IntEnum)."""
        v = self.force(v)
        if isinstance(v, VInt):
            return v
        if isinstance(v, VBool):
            return VInt(z3.If(v.t, z3.IntVal(1), z3.IntVal(0)))
        if isinstance(v, VEnum) and issubclass(v.cls, int):
            return self.enum_value(v)
        return None

    def to_float(self, v, kind="f64"):
        v = self.force(v)
        if isinstance(v, VFloat):
            if v.kind == kind:
                return v
            return VFloat(z3.fpToFP(RNE, v.t, fsort(kind)), kind, v.isnp)
        iv = self.as_int(v)
        if iv is not None:
            c = conc_int(iv.t)
            if c is not None:
                f = float(c)  # correctly rounded (RNE), raises OverflowError if too large
                if kind == "f32":
                    f = float(np.float32(c))
                return VFloat(z3.FPVal(f, fsort(kind)), kind, False)
            if iv.bv is not None:
                return VFloat(z3.fpSignedToFP(RNE, iv.bv, fsort(kind)), kind, False)
            # symbolic int -> float: via Real (correctly rounded); exact when it fits the mantissa
            q = (iv.t, 1) if self.fits_mantissa(iv.t, kind) else None
            return VFloat(z3.fpToFP(RNE, z3.ToReal(iv.t), fsort(kind)), kind, False, q)
        raise Unsupported("to_float of %r" % (v,))

    def float_to_int(self, ft, label):
        """Exact integer value of an integral-valued (already rounded) FP term, as a bv-backed int.
        The width is chosen by cheap range queries; |x| < 2^126 is a model limit."""
        srt = ft.sort()
        for w in (32, 64, 128):
            lim = z3.FPVal(2.0 ** (w - 2), srt)
            inr = z3.And(z3.fpLT(ft, lim), z3.fpGT(ft, z3.fpNeg(lim)))
            if w == 128:
                self.prove(inr, "model_limit", label + " operand magnitude below 2^126")
                break
            self.solver.push()
            self.solver_add(z3.Not(inr))
            r = self.solver.check()
            self.solver.pop()
            if r == z3.unsat:
                break
        return self.mk_bvint(z3.fpToSBV(RTZ, ft, z3.BitVecSort(w)))

    # ---------------------------------------------------------------- arithmetic
    def np_result(self, a, b):
        """Result numpy kind of a binary integer operation (NEP 50), and python-int range check."""
        if a.np is None and b.np is None:
            return None
        if a.np is not None and b.np is not None:
            (ba, sa), (bb, sb) = a.np, b.np
            if sa == sb:
                return (max(ba, bb), sa)
            # mixed signedness: smallest signed type holding both
            ub = bb if sa else ba
            sbits = ba if sa else bb
            need = max(sbits, ub * 2)
            if need > 64:
                raise Unsupported("uint64/int64 mix promotes to float64")
            return (need, True)
        npk = a.np or b.np
        py = b if a.np else a
        lo, hi = np_range(npk)
        ok = z3.And(py.t >= lo, py.t <= hi)
        if not self.branch(ok):
            raise PyRaise(OverflowError, "Python integer out of bounds for numpy type", self.cur_line)
        return npk

    def shift_chain(self, amount, fn, max_shift=None):
        """Build If-chain over a symbolic non-negative shift amount."""
        max_shift = max_shift or self.contract.max_shift
        c = conc_int(amount)
        if c is not None:
            return fn(c)
        self.prove(amount <= max_shift, "model_limit", "shift amount <= %d" % max_shift)
        t = fn(max_shift)
        for k in range(max_shift - 1, -1, -1):
            t = z3.If(amount == k, fn(k), t)
        return t

    def bitop(self, op, a, b, width=128):
        """General & | ^ on mathematical ints through two's complement bit-vectors of `width` bits."""
        lim = 1 << (width - 1)
        for x in (a, b):
            c = conc_int(x)
            if c is None:
                self.prove(z3.And(x >= -lim, x < lim), "model_limit", "bit-op operand fits %d bits" % width)
            elif not (-lim <= c < lim):
                raise Unsupported("bit-op constant too wide")
        ba, bb = z3.Int2BV(a, width), z3.Int2BV(b, width)
        r = {"&": ba & bb, "|": ba | bb, "^": ba ^ bb}[op]
        return z3.BV2Int(r, is_signed=True)

    # ---- bit-vector backed ints -------------------------------------------------------------
    BV_MAX_WIDTH = 320

    def bv_of(self, v):
        """(bv term, width) of an int value that is bv-backed or concrete; else None."""
        if v.bv is not None:
            return v.bv, v.bv.size()
        c = conc_int(v.t)
        if c is not None:
            w = max(c.bit_length(), (-c - 1).bit_length() if c < 0 else 0) + 1
            return z3.BitVecVal(c, w), w
        return None

    @staticmethod
    def sext(bv, w):
        return z3.SignExt(w - bv.size(), bv) if w > bv.size() else bv

    def mk_bvint(self, bv, npk=None):
        return VInt(z3.BV2Int(bv, is_signed=True), npk, bv)

    def bv_binop(self, op, a, b):
        """Binary operation carried out on bit-vectors wide enough never to overflow. None if not applicable."""
        if a.bv is None and b.bv is None:
            return None
        A, B = self.bv_of(a), self.bv_of(b)
        if A is None or B is None:
            return None
        (x, wa), (y, wb) = A, B
        cb = conc_int(b.t)
        if op in ("+", "-"):
            w = max(wa, wb) + 1
            x, y = self.sext(x, w), self.sext(y, w)
            return x + y if op == "+" else x - y
        if op == "*":
            w = wa + wb
            if w > self.BV_MAX_WIDTH:
                return None
            return self.sext(x, w) * self.sext(y, w)
        if op == "<<" and cb is not None and cb >= 0:
            w = wa + cb
            if w > self.BV_MAX_WIDTH:
                return None
            return self.sext(x, w) << cb
        if op == ">>" and cb is not None and cb >= 0:
            if cb >= wa:
                cb = wa - 1
            return x >> cb  # arithmetic shift = floor division by 2**cb
        if op == "//" and cb is not None and cb > 0 and (cb & (cb - 1)) == 0:
            k = cb.bit_length() - 1
            return x >> min(k, wa - 1)
        if op == "%" and cb is not None and cb > 0 and (cb & (cb - 1)) == 0:
            k = cb.bit_length() - 1
            if k == 0:
                return z3.BitVecVal(0, 2)
            if k >= wa:
                x = self.sext(x, k + 1)
            return z3.ZeroExt(1, z3.Extract(k - 1, 0, x))
        if op in ("&", "|", "^"):
            w = max(wa, wb)
            x, y = self.sext(x, w), self.sext(y, w)
            return {"&": x & y, "|": x | y, "^": x ^ y}[op]
        return None

    def bv_compare(self, op, a, b):
        if a.bv is None and b.bv is None:
            return None
        A, B = self.bv_of(a), self.bv_of(b)
        if A is None or B is None:
            return None
        w = max(A[1], B[1])
        x, y = self.sext(A[0], w), self.sext(B[0], w)
        return {"<": x < y, "<=": x <= y, ">": x > y, ">=": x >= y, "==": x == y, "!=": x != y}[op]

    def bv_wrap(self, bv, npk):
        bits, signed = npk
        if bv.size() < bits:
            return bv  # already in range only if value fits; caller checks
        low = z3.Extract(bits - 1, 0, bv)
        return low if signed else z3.ZeroExt(1, low)

    def cur_bounds(self):
        """Interval facts of the current path condition, maintained incrementally (pc only grows, except for the
        temporary guards of clause evaluation, which are handled by rebuilding)."""
        from .intervals import Bounds, add_assertion
        b = getattr(self, "_bounds", None)
        n = getattr(self, "_bounds_n", 0)
        if b is None or n > len(self.pc) or (n and not self.pc[n - 1].eq(self._bounds_last)):
            b = Bounds()
            n = 0
        while n < len(self.pc):
            add_assertion(b, self.pc[n])
            n += 1
        self._bounds = b
        self._bounds_n = n
        self._bounds_last = self.pc[n - 1] if n else None
        return b

    def decide_iv(self, c):
        """Decision of a condition by interval analysis under the path condition (sound, incomplete)."""
        from .intervals import decide
        try:
            return decide(c, self.cur_bounds())
        except RecursionError:
            return None

    def wrap_np(self, t, npk):
        """numpy wrap-around, omitted when interval analysis under the path condition shows it cannot happen."""
        from .intervals import collect_bounds, interval
        c = conc_int(t)
        if c is not None:
            return wrap(t, npk)
        lo, hi = interval(simp(t), self.cur_bounds())
        rlo, rhi = np_range(npk)
        if lo >= rlo and hi <= rhi:
            return t
        return wrap(t, npk)

    def int_binop(self, op, a, b):
        npk = None
        if op in ("+", "-", "*", "//", "%", "&", "|", "^", "<<", ">>", "**"):
            npk = self.np_result(a, b)
        x, y = a.t, b.t
        if (a.bv is not None or b.bv is not None) and npk is None and op not in ("**",):
            if op in ("//", "%") and conc_int(y) is None:
                pass
            else:
                rb = self.bv_binop(op, a, b)
                if rb is not None:
                    return self.mk_bvint(rb)
        if op == "+":
            r = x + y
        elif op == "-":
            r = x - y
        elif op == "*":
            r = x * y
        elif op in ("//", "%"):
            if not self.branch(y != 0):
                if npk is None:
                    raise PyRaise(ZeroDivisionError, "integer division or modulo by zero", self.cur_line)
                raise Unsupported("numpy integer division by zero (returns 0 with a warning)")
            if conc_int(y) is None and self.decide_iv(y > 0):
                r = (x / y) if op == "//" else (x % y)
            else:
                r = fdiv(x, y) if op == "//" else fmod(x, y)
        elif op == "<<":
            if not self.branch(y >= 0):
                raise PyRaise(ValueError, "negative shift count", self.cur_line)
            if npk is not None and conc_int(y) is None:
                self.prove(y < npk[0], "model_limit", "numpy shift amount below width")
            r = self.shift_chain(y, lambda k: x * (1 << k))
        elif op == ">>":
            if not self.branch(y >= 0):
                raise PyRaise(ValueError, "negative shift count", self.cur_line)
            if npk is not None and conc_int(y) is None:
                self.prove(y < npk[0], "model_limit", "numpy shift amount below width")
            r = self.shift_chain(y, lambda k: x / (1 << k))
        elif op == "**":
            cx, cy = conc_int(x), conc_int(y)
            if cy is not None and cy >= 0:
                if cx is not None:
                    r = z3.IntVal(cx ** cy)
                else:
                    r = z3.IntVal(1)
                    for _ in range(cy):
                        r = r * x
            elif cx == 2:
                if not self.branch(y >= 0):
                    raise Unsupported("2 ** negative gives float")
                r = self.shift_chain(y, lambda k: z3.IntVal(1 << k))
            else:
                raise Unsupported("symbolic ** ")
        elif op in ("&", "|", "^"):
            r = self.bit_binop(op, x, y)
        else:
            raise Unsupported("int op %s" % op)
        if npk is not None:
            r = self.wrap_np(r, npk)
        return VInt(r, npk)

    @staticmethod
    def pow2_factor(t):
        """k such that the term is syntactically (c * e) with c a multiple of 2**k (0 if unknown)."""
        t = simp(t)
        if z3.is_int_value(t):
            c = t.as_long()
            return (c & -c).bit_length() - 1 if c != 0 else 256
        if z3.is_mul(t):
            k = 0
            for ch in t.children():
                if z3.is_int_value(ch):
                    c = ch.as_long()
                    if c != 0:
                        k += (c & -c).bit_length() - 1
            return k
        if z3.is_add(t):
            return min(Engine.pow2_factor(ch) for ch in t.children())
        return 0

    def implied(self, cond):
        self.solver.push()
        self.solver_add(z3.Not(cond))
        r = self.solver.check()
        self.solver.pop()
        return r == z3.unsat

    def bitmask_of(self, t, depth=0):
        """Over-approximation of the set of bits that can be 1 in the non-negative term t (None if unknown)."""
        from .intervals import interval, INF
        c = conc_int(t)
        if c is not None:
            return c if c >= 0 else None
        if depth > 30:
            return None
        # NOTE: the term is inspected as built (z3's simplifier would distribute constants and hide the bit structure)
        if z3.is_mul(t):
            k = 0
            rest = []
            for ch in t.children():
                if z3.is_int_value(ch):
                    c = ch.as_long()
                    if c <= 0 or (c & (c - 1)) != 0:
                        rest = None
                        break
                    k += c.bit_length() - 1
                else:
                    rest.append(ch)
            if rest is not None and len(rest) == 1:
                m = self.bitmask_of(rest[0], depth + 1)
                return None if m is None else m << k
        if z3.is_add(t):
            total = 0
            for ch in t.children():
                m = self.bitmask_of(ch, depth + 1)
                if m is None or (m & total):
                    total = None
                    break
                total |= m
            if total is not None:
                return total
        if z3.is_app(t) and t.decl().kind() == z3.Z3_OP_ITE:
            a, b = self.bitmask_of(t.arg(1), depth + 1), self.bitmask_of(t.arg(2), depth + 1)
            if a is not None and b is not None:
                return a | b
        lo, hi = interval(t, self.cur_bounds())
        if lo >= 0 and hi != INF:
            return (1 << int(hi).bit_length()) - 1
        return None

    def bit_binop(self, op, x, y):
        cx, cy = conc_int(x), conc_int(y)
        if cx is not None and cy is not None:
            return z3.IntVal({"&": cx & cy, "|": cx | cy, "^": cx ^ cy}[op])
        if op in ("|", "^"):
            mx, my = self.bitmask_of(x), self.bitmask_of(y)
            if mx is not None and my is not None and (mx & my) == 0:
                return x + y   # no common bit can be set: or == xor == sum
        if op in ("|", "^"):
            # disjoint bit ranges: hi is a multiple of 2**k and 0 <= lo < 2**k  ==>  hi | lo == hi ^ lo == hi + lo
            for hi_, lo_ in ((x, y), (y, x)):
                k = self.pow2_factor(hi_)
                if 0 < k < 256 and self.implied(z3.And(lo_ >= 0, lo_ < (1 << k))):
                    return hi_ + lo_
                if conc_int(lo_) == 0:
                    return hi_
        if op == "&":
            # x & (2^k - 1)  ==  x mod 2^k ;  x & 2^k == ((x div 2^k) mod 2) * 2^k
            for u, cu in ((x, cy), (y, cx)):
                if cu is not None and cu >= 0:
                    if cu == 0:
                        return z3.IntVal(0)
                    if (cu & (cu + 1)) == 0:
                        return u % (cu + 1)
                    if (cu & (cu - 1)) == 0:
                        return ((u / cu) % 2) * cu
                    # contiguous mask  ((2^k - 1) << s)
                    s = (cu & -cu).bit_length() - 1
                    if ((cu >> s) & ((cu >> s) + 1)) == 0:
                        return ((u / (1 << s)) % ((cu >> s) + 1)) * (1 << s)
        return self.bitop(op, x, y)

    MANT = {"f64": 53, "f32": 24}

    def q_of(self, v):
        """(num term, den int) if v is exactly a dyadic rational known to the engine, else None."""
        if isinstance(v, VFloat):
            if v.q is not None:
                return v.q
            t = simp(v.t)
            if z3.is_fp_value(t):
                try:
                    f = self.lower(VFloat(t, v.kind, False))
                    n, d = float(f).as_integer_ratio()
                    return (z3.IntVal(n), d)
                except (ValueError, OverflowError):
                    return None
            return None
        iv = self.as_int(v)
        if iv is not None:
            return (iv.t, 1)
        return None

    def fits_mantissa(self, num, kind):
        lim = 1 << self.MANT[kind]
        c = conc_int(num)
        if c is not None:
            return abs(c) <= lim
        return self.implied(z3.And(num <= lim, num >= -lim))

    def q_binop(self, op, qa, qb, kind):
        """Exact dyadic result of a float operation, or None when exactness is not established."""
        (na, da), (nb, db) = qa, qb
        if op in ("+", "-"):
            D = max(da, db)
            n = na * (D // da) + nb * (D // db) if op == "+" else na * (D // da) - nb * (D // db)
            n = simp(n)
            return (n, D) if self.fits_mantissa(n, kind) else None
        if op == "%":
            if da != 1 or db != 1:
                return None
            if conc_int(nb) == 0:
                return None
            r = simp(na % nb) if self.decide_iv(nb > 0) else simp(fmod(na, nb))
            return (r, 1)
        if op == "//":
            # floor((na/da) / (nb/db)) = floor(na*db / (nb*da)); the result of float floor division is integral
            num = simp(na * db)
            den = simp(nb * da)
            if conc_int(den) == 0:
                return None
            r = simp(num / den) if self.decide_iv(den > 0) else simp(fdiv(num, den))
            return (r, 1) if self.fits_mantissa(r, kind) else None
        if op == "*":
            ca, cb = conc_int(na), conc_int(nb)
            n = simp(na * nb)
            if ca is None and cb is None:
                return (n, da * db) if self.fits_mantissa(n, kind) else None
            # multiplication by a power of two only changes the exponent
            pow2 = any(c is not None and c != 0 and (abs(c) & (abs(c) - 1)) == 0 for c in (ca, cb))
            if pow2:
                other = nb if (ca is not None and ca != 0 and (abs(ca) & (abs(ca) - 1)) == 0) else na
                if self.fits_mantissa(other, kind):
                    return (n, da * db)
            return (n, da * db) if self.fits_mantissa(n, kind) else None
        if op == "/":
            cb = conc_int(nb)
            if cb is None or cb == 0:
                return None
            if (abs(cb) & (abs(cb) - 1)) != 0:
                return None
            # a / (cb/db) = a * db / cb ; cb = +-2^k
            n = simp(na * db * (1 if cb > 0 else -1))
            d = da * abs(cb)
            # reduce common power of two between constant factor and d is not needed; exact if na fits
            return (n, d) if self.fits_mantissa(na, kind) else None
        return None

    def fp_uf(self, name, x, y):
        """IEEE operation kept abstract: an uninterpreted function of its operands (same operands, same result). Sound for proving
        that code and reference apply the same operations to the same values; refutations are replayed natively."""
        key = "%s$%s" % (name, x.sort())
        f = self.memo.get(key)
        if f is None:
            f = z3.Function(key.replace(" ", "_").replace("(", "_").replace(")", "_").replace(",", "_"), x.sort(), y.sort(), x.sort())
            self.memo[key] = f
        self.sh.assumed = getattr(self.sh, "assumed", set())
        self.sh.assumed.add("float %s of two unknown operands is an uninterpreted (deterministic) function of them: IEEE-754 rounding of these operations is not modelled" % name)
        return f(x, y)

    def float_binop(self, op, a, b):
        """IEEE arithmetic with NEP-50 promotion: f32 op python scalar -> f32; f32 op f64(np) -> f64."""
        fa = a if isinstance(a, VFloat) else None
        fb = b if isinstance(b, VFloat) else None
        if fa and fb:
            if fa.kind == fb.kind:
                kind = fa.kind
            else:
                # python float is weak: result follows the numpy operand
                weak_a = (fa.kind == "f64" and not fa.isnp)
                weak_b = (fb.kind == "f64" and not fb.isnp)
                if weak_a and not weak_b:
                    kind = fb.kind
                elif weak_b and not weak_a:
                    kind = fa.kind
                else:
                    kind = "f64"
            isnp = fa.isnp or fb.isnp
        else:
            f = fa or fb
            kind, isnp = f.kind, f.isnp
        x = self.to_float_weak(a, kind)
        y = self.to_float_weak(b, kind)
        if op == "+":
            r = z3.fpAdd(RNE, x, y)
        elif op == "-":
            r = z3.fpSub(RNE, x, y)
        elif op == "*":
            fa_ = getattr(self.contract, "float_abstract", False)
            if fa_ == "all" or (fa_ and not (z3.is_fp_value(simp(x)) or z3.is_fp_value(simp(y)))):
                r = self.fp_uf("fmul", x, y)     # correctly rounded product of two unknowns: uninterpreted (congruence only)
            else:
                r = z3.fpMul(RNE, x, y)
        elif op == "/":
            if not isnp:
                if not self.branch(z3.Not(z3.fpIsZero(y))):
                    raise PyRaise(ZeroDivisionError, "float division by zero", self.cur_line)
            fa_ = getattr(self.contract, "float_abstract", False)
            if fa_ == "all" or (fa_ and not z3.is_fp_value(simp(y))):
                r = self.fp_uf("fdiv", x, y)
            else:
                r = z3.fpDiv(RNE, x, y)
        elif op in ("//", "%"):
            if not self.branch(z3.Not(z3.fpIsZero(y))):
                raise PyRaise(ZeroDivisionError, "float floor division by zero", self.cur_line)
            r = z3.fpRoundToIntegral(z3.RTN(), z3.fpDiv(RNE, x, y))  # placeholder term; the value is carried by q below
        else:
            raise Unsupported("float op %s" % op)
        q = None
        qa, qb = self.q_of(a), self.q_of(b)
        if qa is not None and qb is not None:
            q = self.q_binop(op, qa, qb, kind)
        if op in ("//", "%") and q is None:
            raise Unsupported("float floor division / modulo outside the exact dyadic fragment")
        if op in ("//", "%"):
            # define the FP term from the exact value so that both views agree
            r = z3.fpToFP(RNE, z3.ToReal(q[0]) / q[1], fsort(kind))
        return VFloat(r, kind, isnp, q)

    def to_float_weak(self, v, kind):
        """Convert operand to the operation's float kind. A python float literal converted to f32 rounds."""
        if isinstance(v, VFloat):
            if v.kind == kind:
                return v.t
            return z3.fpToFP(RNE, v.t, fsort(kind))
        return self.to_float(v, kind).t

    def binop(self, op, a, b):
        a, b = self.force(a), self.force(b)
        if isinstance(a, VFloat) or isinstance(b, VFloat) or op == "/":
            # constant folding with the interpreter's own arithmetic
            try:
                x, y = self.lower(a), self.lower(b)
                import operator
                fn = {"+": operator.add, "-": operator.sub, "*": operator.mul, "/": operator.truediv, "**": operator.pow,
                      "//": operator.floordiv, "%": operator.mod}.get(op)
                if fn is not None and isinstance(x, (int, float, np.number)) and isinstance(y, (int, float, np.number)):
                    with np.errstate(all="ignore"):
                        return self.lift(fn(x, y))
            except (ValueError, ZeroDivisionError, OverflowError):
                pass
        if isinstance(a, VFloat) or isinstance(b, VFloat):
            if op in ("+", "-", "*", "/", "//", "%"):
                return self.float_binop(op, a, b)
            raise Unsupported("float op %s" % op)
        ia, ib = self.as_int(a), self.as_int(b)
        if ia is not None and ib is not None:
            if op == "/":
                fa, fb = self.to_float(ia), self.to_float(ib)
                return self.float_binop("/", fa, fb)
            return self.int_binop(op, ia, ib)
        if op == "&" and isinstance(a, VKeys) and isinstance(b, VKeys):
            return VKeys(a.maps + b.maps)
        if op == "+" and isinstance(a, VTuple) and isinstance(b, VTuple):
            return VTuple(a.items + b.items)
        if op == "+" and isinstance(a, VList) and isinstance(b, VList):
            if getattr(self.sh, "refute_bound", 0):
                return self.new_list(self.iter_concrete(a) + self.iter_concrete(b))
            r = self.list_copy(a)
            self.list_extend(r, b)
            return r
        if op == "*" and isinstance(a, VList) and ib is not None:
            st = self._lst(a)
            c = conc_int(ib.t)
            if st[0] == "conc" and c is not None:
                return self.new_list(st[1] * c)
        if op == "+" and isinstance(a, VStr) and isinstance(b, VStr):
            return VStr(a.s + b.s)
        if op == "%" and isinstance(a, VStr):
            return VStr("<fmt>")
        raise Unsupported("binop %s on %r, %r" % (op, a, b))

    def compare(self, op, a, b):
        if (isinstance(a, VOpt) or isinstance(b, VOpt)) and op in ("is", "is not", "==", "!="):
            # Optional operands are compared without case split
            na, va = self.opt_parts(a)
            nb, vb = self.opt_parts(b)
            if va is None or vb is None:
                r = z3.And(na, nb)
            elif op in ("is", "is not"):
                r = z3.Or(z3.And(na, nb), z3.And(z3.Not(na), z3.Not(nb), self.identical(self.force_inner(va), self.force_inner(vb))))
            else:
                r = z3.Or(z3.And(na, nb), z3.And(z3.Not(na), z3.Not(nb), self.equal(va, vb)))
            return VBool(r if op in ("is", "==") else z3.Not(r))
        a, b = self.force(a), self.force(b)
        if op in ("is", "is not"):
            r = self.identical(a, b)
            return VBool(r if op == "is" else z3.Not(r))
        if op in ("==", "!="):
            r = self.equal(a, b)
            return VBool(r if op == "==" else z3.Not(r))
        if op in ("in", "not in"):
            r = self.contains(b, a)
            return VBool(r if op == "in" else z3.Not(r))
        if isinstance(a, VFloat) or isinstance(b, VFloat):
            qa, qb = self.q_of(a), self.q_of(b)
            if qa is not None and qb is not None and (conc_int(qa[0]) is None or conc_int(qb[0]) is None):
                x, y = qa[0] * qb[1], qb[0] * qa[1]
                return VBool({"<": x < y, "<=": x <= y, ">": x > y, ">=": x >= y}[op])
            kind = "f64"
            if isinstance(a, VFloat) and isinstance(b, VFloat) and a.kind == b.kind:
                kind = a.kind
            # exact comparison: widen both to f64 (exact for f32 and for ints < 2^53)
            x = self.to_float_cmp(a)
            y = self.to_float_cmp(b)
            fn = {"<": z3.fpLT, "<=": z3.fpLEQ, ">": z3.fpGT, ">=": z3.fpGEQ}[op]
            return VBool(fn(x, y))
        ia, ib = self.as_int(a), self.as_int(b)
        if ia is not None and ib is not None:
            rb = self.bv_compare(op, ia, ib)
            if rb is not None:
                return VBool(rb)
            x, y = ia.t, ib.t
            return VBool({"<": x < y, "<=": x <= y, ">": x > y, ">=": x >= y}[op])
        if isinstance(a, VTuple) and isinstance(b, VTuple) and len(a.items) == len(b.items):
            # lexicographic
            return VBool(self.lex_cmp(op, a.items, b.items))
        if isinstance(a, VObj) and isinstance(b, VObj) and isinstance(a.cls, type) and hasattr(a.cls, "__lt__") and a.cls is b.cls:
            # user-defined ordering (__lt__): an uninterpreted irreflexive relation on references; only its
            # existence matters for the properties proved (sortedness by the leading tuple components)
            name = "lt$" + a.cls.__name__
            f = self.memo.get(name)
            if f is None:
                f = z3.Function(name, z3.IntSort(), z3.IntSort(), z3.BoolSort())
                self.memo[name] = f
            lt = {"<": f(a.t, b.t), ">": f(b.t, a.t), "<=": z3.Not(f(b.t, a.t)), ">=": z3.Not(f(a.t, b.t))}[op]
            return VBool(lt)
        raise Unsupported("compare %s on %r, %r" % (op, a, b))

    def to_float_cmp(self, v):
        if isinstance(v, VFloat):
            return v.t if v.kind == "f64" else z3.fpToFP(RNE, v.t, F64S)
        iv = self.as_int(v)
        c = conc_int(iv.t)
        if c is not None and abs(c) <= (1 << 53):
            return z3.FPVal(float(c), F64S)
        raise Unsupported("exact comparison float vs large/symbolic int")

    def lex_cmp(self, op, xs, ys):
        if not xs:
            return z3.BoolVal(op in ("<=", ">="))
        strict = {"<": "<", "<=": "<", ">": ">", ">=": ">"}[op]
        head_strict = self.compare(strict, xs[0], ys[0]).t
        head_eq = self.equal(xs[0], ys[0])
        return z3.Or(head_strict, z3.And(head_eq, self.lex_cmp(op, xs[1:], ys[1:])))

    def identical(self, a, b):
        if isinstance(a, VNone) or isinstance(b, VNone):
            return z3.BoolVal(isinstance(a, VNone) and isinstance(b, VNone))
        if isinstance(a, VObj) and isinstance(b, VObj):
            return a.t == b.t
        if isinstance(a, VEnum) and isinstance(b, VEnum):
            return z3.BoolVal(False) if a.cls is not b.cls else a.t == b.t
        if isinstance(a, VBool) and isinstance(b, VBool):
            return a.t == b.t
        if isinstance(a, VNative) and isinstance(b, VNative):
            return z3.BoolVal(a.obj is b.obj)
        if isinstance(a, VList) and isinstance(b, VList):
            if not isinstance(a.loc, tuple) and not isinstance(b.loc, tuple):
                return z3.BoolVal(a.loc == b.loc)
        raise Unsupported("identity of %r, %r" % (a, b))

    def equal(self, a, b):
        a, b = self.force(a), self.force(b)
        if isinstance(a, VNone) or isinstance(b, VNone):
            return z3.BoolVal(isinstance(a, VNone) and isinstance(b, VNone))
        if isinstance(a, VFloat) or isinstance(b, VFloat):
            if isinstance(a, (VFloat, VInt, VBool)) and isinstance(b, (VFloat, VInt, VBool)):
                qa, qb = self.q_of(a), self.q_of(b)
                if qa is not None and qb is not None and (conc_int(qa[0]) is None or conc_int(qb[0]) is None):
                    return qa[0] * qb[1] == qb[0] * qa[1]
                return z3.fpEQ(self.to_float_cmp(a), self.to_float_cmp(b))
            return z3.BoolVal(False)
        if isinstance(a, VEnum) and isinstance(b, VEnum):
            if a.cls is b.cls:
                return a.t == b.t
            if issubclass(a.cls, int) and issubclass(b.cls, int):
                return self.enum_value(a).t == self.enum_value(b).t
            return z3.BoolVal(False)
        ia, ib = self.as_int(a), self.as_int(b)
        if ia is not None and ib is not None:
            rb = self.bv_compare("==", ia, ib)
            if rb is not None:
                return rb
            return ia.t == ib.t
        if isinstance(a, VEnum) or isinstance(b, VEnum):
            return z3.BoolVal(False)  # plain Enum never equals a non-member
        if isinstance(a, VStr) and isinstance(b, VStr):
            return z3.BoolVal(a.s == b.s)
        if isinstance(a, (VStr, VStrSym)) and isinstance(b, (VStr, VStrSym)):
            ta = a.t if isinstance(a, VStrSym) else z3.IntVal(intern_str(a.s))
            tb = b.t if isinstance(b, VStrSym) else z3.IntVal(intern_str(b.s))
            return ta == tb
        if isinstance(a, VTuple) and isinstance(b, VTuple):
            if len(a.items) != len(b.items):
                return z3.BoolVal(False)
            return z3.And([self.equal(x, y) for x, y in zip(a.items, b.items)] + [z3.BoolVal(True)])
        if isinstance(a, VObj) and isinstance(b, VObj):
            if "__eq__" in a.cls.__dict__ if isinstance(a.cls, type) else False:
                raise Unsupported("== on class with __eq__")
            return a.t == b.t
        if isinstance(a, VStruct) and isinstance(b, VStruct):
            if set(a.fields) != set(b.fields):
                raise Unsupported("struct == with different field sets")
            return z3.And([self.equal(a.fields[k], b.fields[k]) for k in a.fields] + [z3.BoolVal(True)])
        if isinstance(a, VNative) and isinstance(b, VNative):
            return z3.BoolVal(a.obj == b.obj)
        if isinstance(a, VOpaque) and isinstance(b, VOpaque):
            return a.t == b.t
        if isinstance(a, VList) and isinstance(b, VList):
            sa, sb = self._lst(a), self._lst(b)
            if sa[0] == "conc" and sb[0] == "conc":
                if len(sa[1]) != len(sb[1]):
                    return z3.BoolVal(False)
                return z3.And([self.equal(x, y) for x, y in zip(sa[1], sb[1])] + [z3.BoolVal(True)])
            sa, sb = self.to_sym_list(a), self.to_sym_list(b, sa[3] if sa[0] == "sym" else None)
            j = z3.Int(self.fresh_name("j"))
            return z3.And(
                sa[1] == sb[1],
                z3.ForAll([j], z3.Implies(z3.And(j >= 0, j < sa[1]), z3.And([z3.Select(x, j) == z3.Select(y, j) for x, y in zip(sa[2], sb[2])]))),
            )
        if type(a) is not type(b):
            return z3.BoolVal(False)
        raise Unsupported("equality of %r, %r" % (a, b))

    def contains(self, container, item):
        if type(container).__name__ == "VEnumName" and isinstance(item, VStr):
            ev = container.ev
            members = enum_members(ev.cls)
            return z3.Or([ev.t == i for i, m in enumerate(members) if item.s in m.name] + [z3.BoolVal(False)])
        if isinstance(container, VStr) and isinstance(item, VStr):
            return z3.BoolVal(item.s in container.s)
        if isinstance(container, VTuple):
            return z3.Or([self.equal(item, x) for x in container.items] + [z3.BoolVal(False)])
        if isinstance(container, VList):
            st = self._lst(container)
            if st[0] == "conc":
                return z3.Or([self.equal(item, x) for x in st[1]] + [z3.BoolVal(False)])
            j = z3.Int(self.fresh_name("j"))
            leaves = self.to_leaves(item, st[3])
            return z3.Exists([j], z3.And(j >= 0, j < st[1], z3.And([z3.Select(a, j) == t for a, t in zip(st[2], leaves)])))
        if isinstance(container, VObj) and isinstance(container.cls, MapCls):
            got = self.map_get(container, item)
            return z3.Not(got.is_none) if isinstance(got, VOpt) else z3.BoolVal(not isinstance(got, VNone))
        if isinstance(container, VMap):
            try:
                k = self.lower(item)
            except ValueError:
                raise Unsupported("symbolic key in concrete map")
            return z3.BoolVal(k in container.d)
        if isinstance(container, VNative):
            try:
                k = self.lower(item)
            except ValueError:
                # symbolic enum member in a native tuple/set of members
                if isinstance(item, VEnum) and isinstance(container.obj, (tuple, set, frozenset, list)):
                    members = enum_members(item.cls)
                    idxs = [members.index(m) for m in container.obj if isinstance(m, item.cls)]
                    return z3.Or([item.t == i for i in idxs] + [z3.BoolVal(False)])
                raise Unsupported("symbolic key in native container")
            return z3.BoolVal(k in container.obj)
        raise Unsupported("'in' on %r" % (container,))

    def unary(self, op, v):
        v = self.force(v)
        if op == "not":
            return VBool(z3.Not(self.truth(v)))
        if isinstance(v, VFloat):
            if op == "-":
                return VFloat(z3.fpNeg(v.t), v.kind, v.isnp, None if v.q is None else (-v.q[0], v.q[1]))
            if op == "+":
                return v
        iv = self.as_int(v)
        if iv is not None:
            if op == "-":
                if iv.bv is not None and iv.np is None:
                    w = iv.bv.size() + 1
                    return self.mk_bvint(-self.sext(iv.bv, w))
                r = -iv.t
                return VInt(wrap(r, iv.np) if iv.np else r, iv.np)
            if op == "+":
                return iv
            if op == "~":
                r = -iv.t - 1
                return VInt(wrap(r, iv.np) if iv.np else r, iv.np)
        raise Unsupported("unary %s on %r" % (op, v))

    # ---------------------------------------------------------------- merging (for conditional expressions)
    def ite(self, c, a, b):
        """Value-level If(c, a, b) where shapes agree; otherwise raises Unsupported."""
        if isinstance(a, VOpt) or isinstance(b, VOpt) or isinstance(a, VNone) != isinstance(b, VNone):
            # build an optional
            def parts(x):
                if isinstance(x, VNone):
                    return z3.BoolVal(True), None
                if isinstance(x, VOpt):
                    return x.is_none, x.val
                return z3.BoolVal(False), x
            na, va = parts(a)
            nb, vb = parts(b)
            if va is None and vb is None:
                return NONE
            if va is None:
                va = vb
            if vb is None:
                vb = va
            return VOpt(z3.If(c, na, nb), self.ite(c, va, vb))
        if isinstance(a, VNone) and isinstance(b, VNone):
            return NONE
        if isinstance(a, VFloat) or isinstance(b, VFloat):
            if isinstance(a, VFloat) and isinstance(b, VFloat) and a.kind == b.kind:
                qa, qb = self.q_of(a), self.q_of(b)
                q = None
                if qa is not None and qb is not None and (a.q is not None or b.q is not None):
                    D = max(qa[1], qb[1])
                    q = (z3.If(c, qa[0] * (D // qa[1]), qb[0] * (D // qb[1])), D)
                return VFloat(z3.If(c, a.t, b.t), a.kind, a.isnp or b.isnp, q)
            if isinstance(a, VFloat) and isinstance(b, VFloat):
                raise Unsupported("ite of f32/f64")
            f = a if isinstance(a, VFloat) else b
            x = self.to_float(a, f.kind)
            y = self.to_float(b, f.kind)
            # NOTE: python keeps int in the other arm; numerically equal for the ints that occur (small constants)
            return VFloat(z3.If(c, x.t, y.t), f.kind, f.isnp)
        if isinstance(a, VBool) and isinstance(b, VBool):
            return VBool(z3.If(c, a.t, b.t))
        if isinstance(a, (VStr, VStrSym)) and isinstance(b, (VStr, VStrSym)):
            ta = a.t if isinstance(a, VStrSym) else z3.IntVal(intern_str(a.s))
            tb = b.t if isinstance(b, VStrSym) else z3.IntVal(intern_str(b.s))
            return VStrSym(z3.If(c, ta, tb))
        if isinstance(a, VEnum) and isinstance(b, VEnum) and a.cls is b.cls:
            return VEnum(a.cls, z3.If(c, a.t, b.t))
        ia, ib = self.as_int(a), self.as_int(b)
        if ia is not None and ib is not None:
            if ia.np != ib.np:
                if conc_bool(c) is None:
                    if getattr(self.contract, "mixed_int_merge", False) or self.in_clause:
                        # value-only merge: the result is treated as a mathematical int (declared per contract: the merged value is
                        # only stored / compared afterwards, never used in fixed-width arithmetic)
                        self.sh.assumed = getattr(self.sh, "assumed", set())
                        self.sh.assumed.add("min/max/conditional over a python int and a numpy int yields a value used only as a number (no further fixed-width arithmetic)")
                        return VInt(z3.If(c, ia.t, ib.t), None)
                    raise Unsupported("conditional expression mixes numpy/python int kinds")
            if (ia.bv is not None or ib.bv is not None) and ia.np is None and ib.np is None:
                A, B = self.bv_of(ia), self.bv_of(ib)
                if A is not None and B is not None:
                    w = max(A[1], B[1])
                    return self.mk_bvint(z3.If(c, self.sext(A[0], w), self.sext(B[0], w)))
            return VInt(z3.If(c, ia.t, ib.t), ia.np)
        if isinstance(a, VTuple) and isinstance(b, VTuple) and len(a.items) == len(b.items):
            return VTuple([self.ite(c, x, y) for x, y in zip(a.items, b.items)], a.cls)
        if isinstance(a, VObj) and isinstance(b, VObj):
            return VObj(a.cls, z3.If(c, a.t, b.t))
        if isinstance(a, VStruct) and isinstance(b, VStruct) and set(a.fields) == set(b.fields):
            return VStruct(a.cls, {k: self.ite(c, a.fields[k], b.fields[k]) for k in a.fields})
        raise Unsupported("cannot merge %r and %r" % (a, b))
