"""Statement/expression interpreter on top of Engine."""
import ast
import builtins
import enum
import inspect
import math
import time
import types

import numpy as np
import z3

from .engine import *  # noqa: F401,F403
from .engine import Engine, FuncSource, conc_bool, conc_int, fdiv, fmod, fsort, simp, wrap, RNE, RTZ, F64S, F32S
from .values import *  # noqa: F401,F403
from .values import np_range

BINOPS = {
    ast.Add: "+", ast.Sub: "-", ast.Mult: "*", ast.FloorDiv: "//", ast.Mod: "%", ast.Div: "/", ast.LShift: "<<",
    ast.RShift: ">>", ast.BitAnd: "&", ast.BitOr: "|", ast.BitXor: "^", ast.Pow: "**",
}
CMPOPS = {
    ast.Eq: "==", ast.NotEq: "!=", ast.Lt: "<", ast.LtE: "<=", ast.Gt: ">", ast.GtE: ">=", ast.Is: "is",
    ast.IsNot: "is not", ast.In: "in", ast.NotIn: "not in",
}
UNOPS = {ast.USub: "-", ast.UAdd: "+", ast.Invert: "~", ast.Not: "not"}

NP_INT_TYPES = {
    np.int8: (8, True), np.int16: (16, True), np.int32: (32, True), np.int64: (64, True),
    np.uint8: (8, False), np.uint16: (16, False), np.uint32: (32, False), np.uint64: (64, False),
}


class Frame:
    def __init__(self, fn, src, env, glob, closure_env=None):
        self.fn = fn
        self.src = src
        self.env = env
        self.glob = glob
        self.closure_env = closure_env


class Interp(Engine):
    # ------------------------------------------------------------------ names
    @property
    def env(self):
        return self.frames[-1].env

    def lookup(self, name):
        fr = self.frames[-1]
        if name in fr.env:
            return fr.env[name]
        ce = fr.closure_env
        while ce is not None:
            if name in ce[0]:
                return ce[0][name]
            ce = ce[1]
        if name in self.contract.bindings:
            return self.lift(self.contract.bindings[name])
        if name in fr.glob:
            return self.lift(fr.glob[name])
        if hasattr(builtins, name):
            return VNative(getattr(builtins, name))
        raise Unsupported("unbound name %r" % name)

    # ------------------------------------------------------------------ expressions
    def ev(self, node):
        m = getattr(self, "ev_" + type(node).__name__, None)
        if m is None:
            raise Unsupported("expression %s (line %s)" % (type(node).__name__, getattr(node, "lineno", "?")))
        if hasattr(node, "lineno") and not self.in_clause:
            self.cur_line = node.lineno
        return m(node)

    in_clause = False

    def ev_Constant(self, node):
        v = node.value
        if v is Ellipsis:
            raise Unsupported("Ellipsis")
        if isinstance(v, bytes):
            return VNative(v)
        return self.lift(v)

    def ev_Name(self, node):
        return self.lookup(node.id)

    def ev_JoinedStr(self, node):
        return VStr("<fstring>")

    def ev_Tuple(self, node):
        items = []
        for e in node.elts:
            if isinstance(e, ast.Starred):
                items += self.iter_concrete(self.ev(e.value))
            else:
                items.append(self.ev(e))
        return VTuple(items)

    def ev_List(self, node):
        items = []
        for e in node.elts:
            if isinstance(e, ast.Starred):
                items += self.iter_concrete(self.ev(e.value))
            else:
                items.append(self.ev(e))
        return self.new_list(items)

    def ev_Dict(self, node):
        d = {}
        for k, v in zip(node.keys, node.values):
            try:
                kk = self.lower(self.ev(k))
            except ValueError:
                raise Unsupported("dict literal with symbolic key")
            d[kk] = self.ev(v)
        return VMap(d)

    def ev_BinOp(self, node):
        a = self.ev(node.left)
        b = self.ev(node.right)
        return self.binop(BINOPS[type(node.op)], a, b)

    def ev_UnaryOp(self, node):
        return self.unary(UNOPS[type(node.op)], self.ev(node.operand))

    def ev_BoolOp(self, node):
        """Short-circuit and/or. Operands after the first are evaluated under the guard so that their
        side obligations (division by zero, index errors) are only demanded where Python evaluates them."""
        is_and = isinstance(node.op, ast.And)
        first = self.ev(node.values[0])
        rest = node.values[1:]
        tv = self.truth(first)
        c = conc_bool(tv)
        if c is not None:
            if (is_and and not c) or ((not is_and) and c):
                return first
            if len(rest) == 1:
                return self.ev(rest[0])
            return self.ev_BoolOp(ast.BoolOp(op=node.op, values=rest))
        # symbolic first operand
        guard = tv if is_and else z3.Not(tv)
        if self.in_clause:
            # clauses are pure: evaluate the rest under the guard
            sub = rest[0] if len(rest) == 1 else ast.BoolOp(op=node.op, values=rest)
            r = self.guarded_eval(guard, sub)
            if r is None:  # guard infeasible on this path: the first operand decides
                return VBool(tv)
            rt = self.truth(r)
            return VBool(z3.And(tv, rt) if is_and else z3.Or(tv, rt))
        # in code: fork, so that exceptions in the right operand follow Python's semantics
        if self.branch(guard):
            r = self.ev(rest[0]) if len(rest) == 1 else self.ev_BoolOp(ast.BoolOp(op=node.op, values=rest))
            return r
        return first

    def ev_Compare(self, node):
        left = self.ev(node.left)
        res = None
        for op, right_node in zip(node.ops, node.comparators):
            right = self.ev(right_node)
            r = self.compare(CMPOPS[type(op)], left, right)
            res = r if res is None else VBool(z3.And(res.t, r.t))
            left = right
        return res

    def decided(self, c):
        """True/False if the condition is already decided on this path (syntactically, or by a cheap entailment query)."""
        cb = conc_bool(c)
        if cb is not None:
            return cb
        cs = simp(c)
        kn = self.known.get(cs.get_id())
        if kn is not None and kn[0].eq(cs):
            return kn[1]
        return self.decide_iv(cs)

    def ev_IfExp(self, node):
        c = self.truth(self.ev(node.test))
        cb = conc_bool(c)
        if cb is None and self.in_clause:
            cb = self.decided(c)
        if cb is not None:
            return self.ev(node.body if cb else node.orelse)
        if self.in_clause:
            a = self.guarded_eval(c, node.body)
            b = self.guarded_eval(z3.Not(c), node.orelse)
            if a is None and b is None:
                raise PathEnd()
            if a is None:
                return b
            if b is None:
                return a
            return self.ite(c, a, b)
        if self.branch(c):
            return self.ev(node.body)
        return self.ev(node.orelse)

    def guarded_eval(self, guard, node):
        """Evaluate `node` under the extra assumption `guard` (clauses only). Returns None when the guard is
        infeasible on this path. Assumptions made inside are re-added as implications."""
        n0 = len(self.pc)
        b0 = self.cur_bounds()
        saved_b = (b0.clone(), self._bounds_n, self._bounds_last)
        self.solver.push()
        self.pc.append(guard)
        self.solver_add(guard)
        r = None
        try:
            try:
                r = self.ev(node)
            except PathEnd:
                r = None
        finally:
            extra = self.pc[n0 + 1:]
            del self.pc[n0:]
            self.solver.pop()
            self._bounds, self._bounds_n, self._bounds_last = saved_b
        if r is not None:
            for e_ in extra:
                self.assume(z3.Implies(guard, e_))
        return r

    def ev_Attribute(self, node):
        base = self.ev(node.value)
        return self.getattr(base, node.attr)

    def getattr(self, base, attr):
        base = self.force(base)
        if isinstance(base, VNative):
            try:
                return self.lift(getattr(base.obj, attr))
            except AttributeError:
                raise Unsupported("native attribute %r of %r" % (attr, base.obj))
        if isinstance(base, VTuple):
            if base.cls is not None and attr in base.cls._fields:
                return base.items[base.cls._fields.index(attr)]
            if base.cls is not None and hasattr(base.cls, attr):
                return self.class_attr(base, base.cls, attr)
            raise Unsupported("tuple attribute %s" % attr)
        if isinstance(base, VStruct):
            if attr in base.fields:
                return base.fields[attr]
            if isinstance(base.cls, type) and hasattr(base.cls, attr):
                return self.class_attr(base, base.cls, attr)
            raise Unsupported("struct %s has no modelled field %r" % (getattr(base.cls, "__name__", base.cls), attr))
        if isinstance(base, VObj) and isinstance(base.cls, MapCls) and attr in ("items", "keys", "values", "get"):
            return VBound(base, "hmap." + attr)
        if isinstance(base, VObj):
            if attr in self.registry.field_types and (
                attr in self.registry.class_fields.get(base.cls, ()) or base.cls not in self.registry.class_fields
            ):
                return self.heap_read(base, attr)
            if isinstance(base.cls, type) and hasattr(base.cls, attr):
                return self.class_attr(base, base.cls, attr)
            raise Unsupported("object %s has no modelled field %r" % (getattr(base.cls, "__name__", base.cls), attr))
        if isinstance(base, VEnum):
            if attr == "value":
                return self.enum_value(base)
            if attr == "name":
                c = conc_int(base.t)
                if c is None:
                    return VEnumName(base)
                return VStr(enum_members(base.cls)[c].name)
            if hasattr(base.cls, attr):
                return self.class_attr(base, base.cls, attr)
        if isinstance(base, VList):
            return VBound(base, "list." + attr)
        if isinstance(base, VMap):
            return VBound(base, "dict." + attr)
        if isinstance(base, VStr):
            return VNative(getattr(base.s, attr))
        if isinstance(base, VInt) and attr in ("real",):
            return base
        if isinstance(base, (VInt, VFloat)) and attr in ("astype", "is_integer", "item", "bit_length"):
            return VBound(base, "num." + attr)
        if isinstance(base, VOpaque):
            # attribute of an opaque object: opaque (can only be passed on to externals)
            return VOpaque(z3.Const(self.fresh_name("opaque_attr_" + attr), base.t.sort()), base.tag)
        raise Unsupported("attribute %r on %r" % (attr, base))

    def class_attr(self, selfv, cls, attr):
        raw = inspect.getattr_static(cls, attr)
        if isinstance(raw, property):
            return self.call_function(raw.fget, [selfv], {})
        if isinstance(raw, (staticmethod,)):
            return VNative(raw.__func__)
        if isinstance(raw, classmethod):
            return VBound(VNative(cls), raw.__func__)
        if inspect.isfunction(raw) or hasattr(raw, "__wrapped__"):
            return VBound(selfv, raw)
        return self.lift(raw)

    def ev_Subscript(self, node):
        base = self.force(self.ev(node.value))
        if isinstance(base, VOpaque):
            # indexing / slicing an opaque (numpy) array: a fresh opaque value of the same sort
            return VOpaque(z3.Const(self.fresh_name("opaque_item"), base.t.sort()), base.tag)
        if isinstance(node.slice, ast.Slice):
            return self.slice_of(base, node.slice)
        idx = self.ev(node.slice)
        return self.subscript(base, idx)

    def subscript(self, base, idx):
        idx = self.force(idx)
        if isinstance(base, VKeys):
            base = self.map_common_keys(base.maps)     # clause-level: j-th key in the order the code iterates over the view
        if isinstance(base, VObj) and isinstance(base.cls, MapCls):
            return self.map_get(base, idx)
        if isinstance(base, VMap):
            try:
                k = self.lower(idx)
            except ValueError:
                # symbolic key into a map with concrete keys: case split over the keys
                keys = list(base.d.keys())
                hit = [self.equal(idx, self.lift(kk)) for kk in keys]
                if not self.branch(z3.Or(hit)):
                    raise PyRaise(KeyError, "key not in map", self.cur_line)
                r = base.d[keys[-1]]
                for kk, h in list(zip(keys, hit))[-2::-1]:
                    r = self.ite(h, base.d[kk], r)
                return r
            if k not in base.d:
                raise PyRaise(KeyError, repr(k), self.cur_line)
            return base.d[k]
        if isinstance(base, VNative):
            try:
                return self.lift(base.obj[self.lower(idx)])
            except ValueError:
                obj = base.obj
                if isinstance(obj, dict) and isinstance(idx, VEnum):
                    # native dict keyed by enum members, symbolic key: case split over the keys of that enum class
                    keys = [k for k in obj if isinstance(k, idx.cls)]
                    members = enum_members(idx.cls)
                    hit = [idx.t == members.index(k) for k in keys]
                    if not keys or not self.branch(z3.Or(hit)):
                        raise PyRaise(KeyError, "key not in dict", self.cur_line)
                    r = self.lift(obj[keys[-1]])
                    for k, h in list(zip(keys, hit))[-2::-1]:
                        r = self.ite(h, self.lift(obj[k]), r)
                    return r
                if isinstance(obj, dict) and self.as_int(idx) is not None and all(isinstance(k, int) for k in obj):
                    keys = list(obj.keys())
                    it = self.as_int(idx).t
                    hit = [it == k for k in keys]
                    if not keys or not self.branch(z3.Or(hit)):
                        raise PyRaise(KeyError, "key not in dict", self.cur_line)
                    r = self.lift(obj[keys[-1]])
                    for k, h in list(zip(keys, hit))[-2::-1]:
                        r = self.ite(h, self.lift(obj[k]), r)
                    return r
                # native sequence of ints indexed symbolically -> If chain
                iv = self.as_int(idx)
                if isinstance(obj, (tuple, list)) and iv is not None and all(isinstance(x, int) for x in obj):
                    n = len(obj)
                    if not self.branch(z3.And(iv.t >= -n, iv.t < n)):
                        raise PyRaise(IndexError, "index out of range", self.cur_line)
                    i = z3.If(iv.t < 0, iv.t + n, iv.t)
                    t = z3.IntVal(obj[-1])
                    for k in range(n - 2, -1, -1):
                        t = z3.If(i == k, z3.IntVal(obj[k]), t)
                    return VInt(t)
                raise Unsupported("symbolic index into native %r" % type(obj))
            except (IndexError, KeyError) as e:
                raise PyRaise(type(e), str(e), self.cur_line)
        iv = self.as_int(idx)
        if iv is None:
            raise Unsupported("subscript index %r" % (idx,))
        if isinstance(base, VTuple):
            c = conc_int(iv.t)
            n = len(base.items)
            if c is not None:
                if not (-n <= c < n):
                    raise PyRaise(IndexError, "tuple index out of range", self.cur_line)
                return base.items[c]
            if not self.branch(z3.And(iv.t >= -n, iv.t < n)):
                raise PyRaise(IndexError, "tuple index out of range", self.cur_line)
            i = z3.If(iv.t < 0, iv.t + n, iv.t)
            r = base.items[-1]
            for k in range(n - 2, -1, -1):
                r = self.ite(i == k, base.items[k], r)
            return r
        if isinstance(base, VList):
            return self.list_get(base, iv.t)
        if isinstance(base, VStr):
            c = conc_int(iv.t)
            return VStr(base.s[c])
        raise Unsupported("subscript on %r" % (base,))

    def slice_of(self, base, sl):
        def cv(n):
            if n is None:
                return None
            v = self.as_int(self.ev(n))
            c = conc_int(v.t) if v is not None else None
            if c is None:
                raise ValueError
            return c
        try:
            lo, hi, st = cv(sl.lower), cv(sl.upper), cv(sl.step)
        except ValueError:
            return self.sym_slice(base, sl)
        if isinstance(base, VTuple):
            return VTuple(base.items[lo:hi:st])
        if isinstance(base, VList):
            stl = self._lst(base)
            if stl[0] == "conc":
                return self.new_list(stl[1][lo:hi:st])
            return self.sym_slice(base, sl)
        if isinstance(base, VStr):
            return VStr(base.s[lo:hi:st])
        if isinstance(base, VNative):
            return self.lift(base.obj[lo:hi:st])
        raise Unsupported("slice of %r" % (base,))

    def sym_slice(self, base, sl):
        """a[lo:hi] on a symbolic list with 0 <= lo <= hi <= len (proved), step 1."""
        if isinstance(base, VOpaque):
            # numpy slicing of an opaque array: a fresh opaque value (only ever passed on to externals)
            return VOpaque(z3.Const(self.fresh_name("opaque_slice"), base.t.sort()), base.tag)
        if not isinstance(base, VList):
            raise Unsupported("symbolic slice")
        st = self.to_sym_list(base)
        n = st[1]
        if sl.step is not None:
            return self.sym_slice_step(base, sl, st)
        lo = self.as_int(self.ev(sl.lower)).t if sl.lower is not None else z3.IntVal(0)
        hi = self.as_int(self.ev(sl.upper)).t if sl.upper is not None else n
        # python clamps; we normalise explicitly
        lo_n = z3.If(lo < 0, z3.If(lo + n < 0, 0, lo + n), z3.If(lo > n, n, lo))
        hi_n = z3.If(hi < 0, z3.If(hi + n < 0, 0, hi + n), z3.If(hi > n, n, hi))
        ln = z3.If(hi_n > lo_n, hi_n - lo_n, 0)
        j = z3.Int(self.fresh_name("j"))
        arrs = []
        for a in st[2]:
            na = z3.Array(self.fresh_name("slice"), z3.IntSort(), a.sort().range())
            self.assume(z3.ForAll([j], z3.Select(na, j) == z3.Select(a, j + lo_n)))
            arrs.append(na)
        loc = self.new_loc()
        self.lists[loc] = ["sym", ln, arrs, st[3]]
        return VList(loc)

    def sym_slice_step(self, base, sl, st):
        """a[lo:hi:step] with step >= 1 (proved) and lo >= 0 (proved): length ceil((min(hi, len) - lo) / step) clipped at 0,
        element j is a[lo + j * step]."""
        n = st[1]
        step = self.as_int(self.ev(sl.step)).t
        lo = self.as_int(self.ev(sl.lower)).t if sl.lower is not None else z3.IntVal(0)
        hi = self.as_int(self.ev(sl.upper)).t if sl.upper is not None else n
        self.prove(z3.And(step >= 1, lo >= 0, hi >= 0), "model_limit", "strided slice with positive step and non-negative bounds", self.cur_line)
        hi_n = z3.If(hi > n, n, hi)
        span = hi_n - lo
        ln = z3.Int(self.fresh_name("slen"))
        # ln == ceil(span / step) for span > 0, else 0 (stated with multiplication only)
        self.assume(z3.If(span > 0, z3.And(ln >= 1, (ln - 1) * step < span, ln * step >= span), ln == 0))
        j = z3.Int(self.fresh_name("j"))
        arrs = []
        for a in st[2]:
            na = z3.Array(self.fresh_name("slice"), z3.IntSort(), a.sort().range())
            self.assume(z3.ForAll([j], z3.Select(na, j) == z3.Select(a, lo + j * step), patterns=[z3.Select(na, j)]))
            arrs.append(na)
        loc = self.new_loc()
        self.lists[loc] = ["sym", ln, arrs, st[3]]
        return VList(loc)

    def iter_concrete(self, v):
        v = self.force(v)
        if isinstance(v, VTuple):
            return list(v.items)
        if isinstance(v, VList):
            st = self._lst(v)
            if st[0] == "conc":
                return list(st[1])
            n = conc_int(st[1])
            if n is not None:
                return [self.list_get(v, z3.IntVal(i), check=False) for i in range(n)]
            K = getattr(self.sh, "refute_bound", 0)
            if K and not self.in_quant:
                # bounded refutation mode: case split on the length (<= K) so that everything downstream is quantifier free
                for k in range(K + 1):
                    if self.branch(st[1] == k):
                        return [self.list_get(v, z3.IntVal(i), check=False) for i in range(k)]
                raise PathEnd()
        if isinstance(v, VNative) and isinstance(v.obj, (tuple, list, range, str, bytes, frozenset, set, dict)) or (
            isinstance(v, VNative) and isinstance(v.obj, type) and issubclass(v.obj, enum.Enum)
        ):
            return [self.lift(x) for x in v.obj]
        if isinstance(v, VMap):
            return [self.lift(k) for k in v.d]
        if isinstance(v, VStr):
            return [VStr(ch) for ch in v.s]
        raise ValueError("not concretely iterable: %r" % (v,))

    # comprehension / generator support -----------------------------------------------------
    def ev_ListComp(self, node):
        return self.comprehension(node, "list")

    def ev_GeneratorExp(self, node):
        return self.comprehension(node, "gen")

    def comprehension(self, node, kind):
        if len(node.generators) != 1:
            raise Unsupported("nested comprehension")
        gen = node.generators[0]
        it = self.ev(gen.iter)
        try:
            items = self.iter_values(it)
        except ValueError:
            if kind == "list":
                return self.sym_list_comp(node, gen, it)
            raise Unsupported("generator over symbolic iterable outside all/any")
        out = []
        saved = dict(self.env)
        try:
            for x in items:
                self.assign_target(gen.target, x)
                ok = True
                for cond in gen.ifs:
                    c = self.truth(self.ev(cond))
                    if not self.branch(c):
                        ok = False
                        break
                if ok:
                    out.append(self.ev(node.elt))
        finally:
            self.restore_env(saved)
        return self.new_list(out) if kind == "list" else VTuple(out)

    def restore_env(self, saved):
        env = self.env
        for k in list(env.keys()):
            if k not in saved:
                del env[k]
        env.update(saved)

    def sym_range_of(self, it):
        """(start, stop, step) z3 terms if `it` is a range value (VTuple tagged) else None."""
        if isinstance(it, VRange):
            return it.start, it.stop, it.step
        return None

    def iter_values(self, it):
        it = self.force(it)
        if isinstance(it, VKeys):
            raise ValueError("key view of a symbolic map")
        if isinstance(it, VRange):
            s, e, st = conc_int(it.start), conc_int(it.stop), conc_int(it.step)
            if s is None or e is None or st is None:
                raise ValueError("symbolic range")
            return [VInt(i) for i in range(s, e, st)]
        if isinstance(it, VZip):
            cols = [self.iter_values(x) for x in it.parts]
            return [VTuple(list(t)) for t in zip(*cols)]
        if isinstance(it, VEnumerate):
            vals = self.iter_values(it.inner)
            s = conc_int(it.start)
            return [VTuple([VInt(i + s), v]) for i, v in enumerate(vals)]
        return self.iter_concrete(it)

    def sym_list_comp(self, node, gen, it):
        """[f(x) for x in <symbolic list or range>] without filter: definitional quantifier."""
        if gen.ifs:
            raise Unsupported("filtered comprehension over symbolic iterable")
        n, getter = self.sym_iter(it)
        j = z3.Int(self.fresh_name("k"))
        saved = dict(self.env)
        npc = len(self.pc)
        self.solver.push()
        try:
            self.in_quant += 1
            rng = z3.And(j >= 0, j < n)
            self.pc.append(rng)
            self.solver_add(rng)
            self.assign_target(gen.target, getter(j))
            elt = self.ev(node.elt)
            extra = self.pc[npc + 1:]
        finally:
            self.in_quant -= 1
            del self.pc[npc:]
            self.solver.pop()
            self.restore_env(saved)
        elemT = self.type_of(elt)
        leaves = self.to_leaves(elt, elemT)
        arrs = []
        for (k, s), t in zip(self.leaf_sorts(elemT), leaves):
            a = z3.Array(self.fresh_name("comp"), z3.IntSort(), s)
            self.assume(z3.ForAll([j], z3.Implies(z3.And(j >= 0, j < n), z3.Select(a, j) == t)))
            arrs.append(a)
        for e_ in extra:
            self.assume(z3.ForAll([j], z3.Implies(z3.And(j >= 0, j < n), e_)))
        loc = self.new_loc()
        self.lists[loc] = ["sym", n, arrs, elemT]
        return VList(loc)

    in_quant = 0

    def sym_iter(self, it):
        """(count term, getter(index term) -> V) for a symbolic iterable."""
        it = self.force(it)
        if isinstance(it, VKeys):
            it = self.map_common_keys(it.maps)
        if isinstance(it, VRange):
            st = conc_int(it.step)
            if st is None or st == 0:
                raise Unsupported("range with symbolic step")
            if st > 0:
                cnt = z3.If(it.stop > it.start, (it.stop - it.start + st - 1) / st, 0)
            else:
                cnt = z3.If(it.start > it.stop, (it.start - it.stop + (-st) - 1) / (-st), 0)
            cnt = simp(cnt)
            return cnt, (lambda j: VInt(it.start + j * st))
        if isinstance(it, VList):
            s = self.to_sym_list(it)
            return s[1], (lambda j: self.from_leaves([z3.Select(a, j) for a in s[2]], s[3], assume_wf=True))
        if isinstance(it, VEnumerate):
            n, g = self.sym_iter(it.inner)
            return n, (lambda j: VTuple([VInt(j + it.start), g(j)]))
        if isinstance(it, VZip):
            parts = [self.sym_iter(p) for p in it.parts]
            n = parts[0][0]
            for p in parts[1:]:
                n = z3.If(p[0] < n, p[0], n)
            return simp(n), (lambda j: VTuple([g(j) for _, g in parts]))
        if isinstance(it, VTuple):
            n = len(it.items)

            def g(j):
                r = it.items[-1]
                for k in range(n - 2, -1, -1):
                    r = self.ite(j == k, it.items[k], r)
                return r
            return z3.IntVal(n), g
        raise Unsupported("symbolic iteration over %r" % (it,))

    def quantified(self, node, is_all):
        """all(...) / any(...) over a generator expression."""
        gen = node.generators[0]
        if len(node.generators) != 1:
            # nested: all(P for a in A for b in B) -> rewrite as all(all(P for b in B) for a in A)
            inner = ast.GeneratorExp(elt=node.elt, generators=node.generators[1:])
            call = ast.Call(func=ast.Name(id="all" if is_all else "any", ctx=ast.Load()), args=[inner], keywords=[])
            node = ast.GeneratorExp(elt=call, generators=[gen])
            ast.fix_missing_locations(node)
        it = self.ev(gen.iter)
        try:
            items = self.iter_values(it)
        except ValueError:
            items = None
        saved = dict(self.env)
        if items is not None:
            parts = []
            try:
                for x in items:
                    self.assign_target(gen.target, x)
                    conds = [self.truth(self.ev(c)) for c in gen.ifs]
                    guard = z3.And(conds) if conds else z3.BoolVal(True)
                    if self.in_clause or self.in_quant:
                        gb = self.guarded_eval(guard, node.elt)
                        body = self.truth(gb) if gb is not None else z3.BoolVal(True)
                    else:
                        body = self.truth(self.ev(node.elt))
                    parts.append(z3.Implies(guard, body) if is_all else z3.And(guard, body))
            finally:
                self.restore_env(saved)
            if is_all:
                return VBool(z3.And(parts) if parts else z3.BoolVal(True))
            return VBool(z3.Or(parts) if parts else z3.BoolVal(False))
        j = z3.Int(self.fresh_name("q"))
        itf = self.force(it)
        if isinstance(itf, VRange) and conc_int(itf.step) == 1:
            # bind the range value itself (good E-matching patterns: Select(a, q) rather than Select(a, start + q))
            rng = z3.And(j >= itf.start, j < itf.stop)
            getter = lambda jj: VInt(jj)
        else:
            n, getter = self.sym_iter(it)
            rng = z3.And(j >= 0, j < n)
        npc = len(self.pc)
        b0 = self.cur_bounds()
        saved_b = (b0.clone(), self._bounds_n, self._bounds_last)
        self.solver.push()
        try:
            self.in_quant += 1
            self.pc.append(rng)
            self.solver_add(rng)
            self.assign_target(gen.target, getter(j))
            conds = []
            for c in gen.ifs:
                ct = self.truth(self.ev(c))
                conds.append(ct)
                self.pc.append(ct)
                self.solver_add(ct)
            body = self.truth(self.ev(node.elt))
            extra = self.pc[npc + 1 + len(conds):]
        finally:
            self.in_quant -= 1
            del self.pc[npc:]
            self.solver.pop()
            self._bounds, self._bounds_n, self._bounds_last = saved_b
            self.restore_env(saved)
        guard = z3.And([rng] + conds)
        # assumptions produced while evaluating the body (element well-formedness) hold for every index
        if extra:
            self.assume(z3.ForAll([j], z3.Implies(guard, z3.And(extra))))
        if is_all:
            return VBool(z3.ForAll([j], z3.Implies(guard, body)))
        return VBool(z3.Exists([j], z3.And(guard, body)))

    def ev_Lambda(self, node):
        return VClosure(node, (self.env, self.frames[-1].closure_env), self.frames[-1].glob)

    def ev_Starred(self, node):
        raise Unsupported("starred expression")

    # ------------------------------------------------------------------ calls
    def ev_Call(self, node):
        fnode = node.func
        # all(...) / any(...) over generator
        if isinstance(fnode, ast.Name) and fnode.id in ("all", "any") and len(node.args) == 1 and isinstance(
            node.args[0], ast.GeneratorExp
        ) and fnode.id not in self.env:
            return self.quantified(node.args[0], fnode.id == "all")
        if isinstance(fnode, ast.Name) and fnode.id == "implies" and len(node.args) == 2 and "implies" not in self.env:
            a = self.truth(self.ev(node.args[0]))
            if conc_bool(a) is False:
                return VBool(True)
            b = self.guarded_eval(a, node.args[1])
            if b is None:
                return VBool(True)
            return VBool(z3.Implies(a, self.truth(b)))
        if isinstance(fnode, ast.Name) and fnode.id == "old" and self.in_clause:
            return self.eval_old(node.args[0])
        if isinstance(fnode, ast.Name) and fnode.id in ("sum", "max", "min") and len(node.args) >= 1 and isinstance(
            node.args[0], ast.GeneratorExp
        ) and fnode.id not in self.env:
            return self.fold_generator(fnode.id, node)
        f = self.ev(fnode)
        args = []
        for a in node.args:
            if isinstance(a, ast.Starred):
                try:
                    args += self.iter_concrete(self.ev(a.value))
                except ValueError:
                    args.append(VStarSym(self.ev(a.value)))
            else:
                args.append(self.ev(a))
        kwargs = {}
        for kw in node.keywords:
            if kw.arg is None:
                raise Unsupported("**kwargs call")
            kwargs[kw.arg] = self.ev(kw.value)
        return self.call(f, args, kwargs, node)

    def fold_generator(self, name, node):
        gen_node = node.args[0]
        lst = self.comprehension(ast.ListComp(elt=gen_node.elt, generators=gen_node.generators), "list")
        extra = [self.ev(a) for a in node.args[1:]]
        kwargs = {kw.arg: self.ev(kw.value) for kw in node.keywords}
        return self.call(VNative(getattr(builtins, name)), [lst] + extra, kwargs, node)

    def snapshot_lists(self):
        out = {}
        for k, v in self.lists.items():
            out[k] = ["conc", list(v[1])] if v[0] == "conc" else ["sym", v[1], list(v[2]), v[3]]
        return out

    def eval_old(self, node):
        """old(e): e evaluated in the entry state. A list result is returned as a snapshot copy."""
        saved_heap, saved_lists = self.heap, self.lists
        self.heap = dict(self.heap0)
        self.lists = {k: (["conc", list(v[1])] if v[0] == "conc" else ["sym", v[1], list(v[2]), v[3]]) for k, v in self.lists0.items()}
        saved_env = self.frames[-1].env
        merged = dict(saved_env)      # keeps quantifier-bound variables of the enclosing clause
        merged.update(self.env0)
        self.frames[-1].env = merged
        snap = None
        try:
            r = self.ev(node)
            if isinstance(r, VList):
                st = self._lst(r)
                snap = ["conc", list(st[1])] if st[0] == "conc" else ["sym", st[1], list(st[2]), st[3]]
        finally:
            self.heap, self.lists = saved_heap, saved_lists
            self.frames[-1].env = saved_env
        if snap is not None:
            loc = self.new_loc()
            self.lists[loc] = snap
            return VList(loc)
        return r

    def call(self, f, args, kwargs, node=None):
        f = self.force(f)
        if isinstance(f, VClosure):
            return self.call_closure(f, args, kwargs)
        if isinstance(f, VBound):
            if isinstance(f.func, str):
                return self.call_builtin_method(f.selfv, f.func, args, kwargs)
            if isinstance(f.selfv, VEnum) and conc_int(f.selfv.t) is None:
                return self.enum_method_table(f.selfv, f.func, args, kwargs)
            return self.call_function(f.func, [f.selfv] + args, kwargs)
        if isinstance(f, VNative):
            return self.call_native(f.obj, args, kwargs, node)
        raise Unsupported("call of %r" % (f,))

    def enum_method_table(self, ev, func, args, kwargs):
        """method(enum_member, *concrete args) tabulated natively over all members (pure methods of a finite enum)."""
        try:
            nargs = [self.lower(a) for a in args]
            nkw = {k: self.lower(v) for k, v in kwargs.items()}
        except ValueError:
            raise Unsupported("enum method with symbolic arguments")
        members = enum_members(ev.cls)
        vals = []
        for m in members:
            try:
                vals.append(self.lift(func(m, *nargs, **nkw)))
            except Exception:
                vals.append(None)
        r = None
        for i in range(len(members) - 1, -1, -1):
            if vals[i] is None:
                # method raises for this member: path must exclude it
                if self.feasible(ev.t == i):
                    if self.branch(ev.t == i):
                        raise PyRaise(Exception, "enum method raises for %s" % members[i], self.cur_line)
                continue
            r = vals[i] if r is None else self.ite(ev.t == i, vals[i], r)
        self.sh.tabulated = getattr(self.sh, "tabulated", set())
        self.sh.tabulated.add("%s.%s" % (ev.cls.__name__, getattr(func, "__name__", func)))
        return r

    def bind_params(self, fnode, args, kwargs, defaults_fn=None, closure=None):
        a = fnode.args
        params = [p.arg for p in a.posonlyargs + a.args]
        env = {}
        args = list(args)
        if len(args) > len(params) and a.vararg is None:
            raise Unsupported("too many positional arguments")
        for p, v in zip(params, args):
            env[p] = v
        if a.vararg is not None:
            env[a.vararg.arg] = VTuple(args[len(params):])
        for k, v in kwargs.items():
            if k in env:
                raise Unsupported("duplicate argument %s" % k)
            env[k] = v
        # defaults
        ndef = len(a.defaults)
        for i, p in enumerate(params):
            if p not in env:
                di = i - (len(params) - ndef)
                if di < 0:
                    raise Unsupported("missing argument %s" % p)
                if defaults_fn is not None:
                    env[p] = self.lift(defaults_fn.__defaults__[di])
                else:
                    env[p] = self.ev(a.defaults[di])
        for p, d in zip(a.kwonlyargs, a.kw_defaults):
            if p.arg not in env:
                if d is None:
                    raise Unsupported("missing kw-only argument")
                env[p.arg] = self.lift(defaults_fn.__kwdefaults__[p.arg]) if defaults_fn else self.ev(d)
        return env

    def call_closure(self, f, args, kwargs):
        node = f.node
        env = self.bind_params(node, args, kwargs)
        fr = Frame(None, None, env, f.glob, f.env)
        self.frames.append(fr)
        self.call_depth += 1
        try:
            if isinstance(node, ast.Lambda):
                return self.ev(node.body)
            try:
                self.exec_block(node.body)
            except ReturnSignal as r:
                return r.value
            return NONE
        finally:
            self.call_depth -= 1
            self.frames.pop()

    def call_function(self, fn, args, kwargs, force_inline=False):
        """Call of a Python function with source: modular if it has a contract, else inlined."""
        fn_u = inspect.unwrap(fn) if hasattr(fn, "__wrapped__") else fn
        ext = self.contract.externals.get(qualname_of(fn_u))
        if ext is None and getattr(self, "root_contract", None) is not None:
            ext = self.root_contract.externals.get(qualname_of(fn_u))    # also inside the clauses of modular callees
        if ext is not None:
            return ext(self, args, kwargs)
        callee_contract = self.registry.by_fn.get(id(fn_u))
        if self.in_clause and callee_contract is not None and not callee_contract.modifies and not callee_contract.modifies_maps and not callee_contract.variant_modifies_maps \
                and not callee_contract.modifies_lists:
            # a clause that mentions a (side-effect free) repo function means the function itself: evaluate its real body, so that
            # two mentions denote the same value; what that value is, is pinned down by the callee's own verified contract
            force_inline = True
        if (
            callee_contract is not None and not force_inline and callee_contract is not self.contract
            and callee_contract.key not in self.contract.inline and not callee_contract.always_inline
        ) or (callee_contract is not None and callee_contract is self.contract and not force_inline and self.frames and self.frames[-1].fn is not None):
            if not (getattr(self.sh, "refute_bound", 0) and callee_contract is not self.contract
                    and not self.modular_applicable(callee_contract, fn_u, args, kwargs)):
                return self.call_modular(callee_contract, fn_u, args, kwargs)
            # bounded refutation of an edited caller whose arguments no longer match the callee's verified variants: run the body
        mod = getattr(fn_u, "__module__", "") or ""
        if not (mod.startswith("ethosu") or mod.startswith("contracts") or mod.startswith("pyvc")):
            raise Unsupported("call to external function %s.%s" % (mod, getattr(fn_u, "__name__", fn_u)))
        if self.call_depth > 40:
            raise Unsupported("call depth exceeded (recursion?) at %s" % fn_u.__name__)
        src = FuncSource.of(fn_u)
        env = self.bind_params(src.node, args, kwargs, defaults_fn=fn_u)
        fr = Frame(fn_u, src, env, fn_u.__globals__)
        self.frames.append(fr)
        self.call_depth += 1
        saved_line = self.cur_line
        self.sh.inlined = getattr(self.sh, "inlined", set())
        self.sh.inlined.add(qualname_of(fn_u))
        try:
            try:
                self.exec_block(src.node.body)
            except ReturnSignal as r:
                return r.value
            return NONE
        finally:
            self.call_depth -= 1
            self.frames.pop()
            self.cur_line = saved_line

    def modular_applicable(self, c, fn, args, kwargs):
        """Do the actual arguments have the kinds of one of the callee's verified variants?"""
        try:
            src = FuncSource.of(fn)
            env = self.bind_params(src.node, args, kwargs, defaults_fn=fn)
            return any(all(self.kind_matches(env[pn], pT) for pn, pT in cand.items() if pn in env)
                       for cand in list(c.variants.values()) + list(c.call_variants.values()))
        except Exception:
            return False

    def call_modular(self, c, fn, args, kwargs):
        """Assert requires, havoc modifies, assume ensures of the callee's contract."""
        src = FuncSource.of(fn)
        env = self.bind_params(src.node, args, kwargs, defaults_fn=fn)
        self.sh.modular = getattr(self.sh, "modular", set())
        self.sh.modular.add(c.key)
        code_env = env
        env = self.clause_env(env)
        # ghost parameters of the callee (declared in its variant types but not in its signature): its proof holds for ALL
        # their values, so the caller may assume each postcondition universally quantified over them
        sig_names = {a.arg for a in src.node.args.posonlyargs + src.node.args.args + src.node.args.kwonlyargs}
        ghost_syms = []
        vt0 = next(iter(c.variants.values()), {})
        bound_ghosts = getattr(self.contract, "ghost_args", {}).get(c.key, {})
        for gname, gT in vt0.items():
            if gname not in sig_names and gname not in env:
                if gname in bound_ghosts:
                    # the caller's contract instantiates the callee's (universally quantified) ghost parameter with a term of its own
                    saved_ic = self.in_clause
                    self.in_clause = True
                    try:
                        env[gname] = self.eval_clause(bound_ghosts[gname])
                    finally:
                        self.in_clause = saved_ic
                    continue
                gv = self.fresh(gT, "%s.ghost.%s" % (c.key, gname))
                env[gname] = gv
                if isinstance(gv, VInt):
                    ghost_syms.append(gv.t)
        fr = Frame(fn, src, env, dict(fn.__globals__))
        self.frames.append(fr)
        saved_clause = self.in_clause
        saved_env0, saved_heap0, saved_lists0 = getattr(self, "env0", None), self.heap0, getattr(self, "lists0", None)
        line = self.cur_line
        try:
            self.in_clause = True
            saved_contract = self.contract
            # clauses of the callee are evaluated with the callee's bindings
            self.contract = c
            try:
                # declared parameter types are part of the precondition: ranges must hold for the actual arguments
                self.contract = saved_contract
                self.in_clause = saved_clause
                vt = None
                vt_name = None
                for vname, cand in list(c.variants.items()) + list(c.call_variants.items()):
                    if all(self.kind_matches(code_env[pn], pT) for pn, pT in cand.items() if pn in code_env):
                        vt = cand
                        vt_name = vname
                        if vname in c.call_variants:
                            self.sh.assumed = getattr(self.sh, "assumed", set())
                            self.sh.assumed.add("call of %s uses its generic call variant %r (justified by its exhaustively verified constant variants)" % (c.key, vname))
                        break
                if vt is None:
                    bad = []
                    for vname, cand in c.variants.items():
                        bad.append("%s: %s" % (vname, ["%s:%s" % (pn, code_env[pn]) for pn, pT in cand.items() if pn in code_env and not self.kind_matches(code_env[pn], pT)]))
                    raise Unsupported("no verified variant of %s matches the argument kinds at this call (mismatches: %s)" % (c.key, "; ".join(bad)[:1500]))
                for pname, pT in (vt or {}).items():
                    if pname in code_env:
                        cond = self.conforms(code_env[pname], pT)
                        if cond is not None:
                            self.prove(cond, "call_pre", "%s.%s within declared type %r" % (c.key, pname, pT), line)
                self.in_clause = True
                self.contract = c
                for i, cl in enumerate(c.requires):
                    if any(gn in cl for gn in vt0 if gn not in sig_names):
                        self.sh.assumed = getattr(self.sh, "assumed", set())
                        self.sh.assumed.add("call of %s: existence of ghost witness for requires %r not checked at the call site" % (c.key, cl[:80]))
                        continue
                    g = self.truth(self.eval_clause(cl))
                    self.contract = saved_contract
                    self.in_clause = saved_clause
                    self.prove(g, "call_pre", "%s.requires[%d]" % (c.key, i), line)
                    self.in_clause = True
                    self.contract = c
                # snapshot for old()
                self.env0 = dict(env)
                self.heap0 = dict(self.heap)
                self.lists0 = self.snapshot_lists()
                # exceptional behaviour
                raised_conds = []
                for exc_cls, when in c.raises:
                    if when is None:
                        w = z3.Bool(self.fresh_name("raises_" + exc_cls.__name__))
                    else:
                        w = self.truth(self.eval_clause(when))
                    raised_conds.append((exc_cls, w))
                self.contract = saved_contract
                self.in_clause = saved_clause
                for exc_cls, w in raised_conds:
                    if self.branch(w):
                        raise PyRaise(exc_cls, "raised by contract of %s" % c.key, line)
                self.in_clause = True
                self.contract = c
                # havoc
                for fld in c.modifies:
                    if "." in fld:
                        oexpr, fname = fld.rsplit(".", 1)
                        self.havoc_cell(self.force(self.eval_clause(oexpr)), fname)
                    else:
                        self.havoc_field(fld)
                for pname in c.modifies_lists:
                    lv = code_env.get(pname)
                    if isinstance(lv, VList):
                        pt = next((vt[pname] for vt in c.variants.values() if pname in vt), None)
                        self.havoc_list(lv, "%s.%s'" % (c.key, pname), pt.elem if isinstance(pt, TList) else None)
                for mexpr, kexpr in c.modifies_maps + c.variant_modifies_maps.get(vt_name, []):
                    mobj = self.force(self.eval_clause(mexpr))
                    kval = self.eval_clause(kexpr)
                    self.map_havoc_key(mobj, kval)
                if c.allocates:
                    a = self.alloc_term()
                    na = z3.Int(self.fresh_name("$alloc"))
                    self.assume(na >= a)
                    self.alloc = na
                rT = c.returns
                if callable(rT) and not isinstance(rT, T):
                    rT = rT(self, env)
                res = self.fresh(rT, "%s.result" % c.key) if rT is not None else NONE
                env["result"] = res
                for gname, gT in c.ghost_results.items():
                    env[gname] = self.fresh(gT, "%s.%s" % (c.key, gname))
                for cl in c.ensures + c.variant_ensures.get(vt_name, []):
                    if cl.startswith("lemma:"):
                        continue   # proof steps of the callee's own proof, not part of its interface
                    t = self.truth(self.eval_clause(cl))
                    if ghost_syms:
                        from z3 import z3util
                        used = [g for g in ghost_syms if any(g.eq(v) for v in z3util.get_vars(t))]
                        if used:
                            t = z3.ForAll(used, t)
                    self.assume(t)
                return res
            finally:
                self.contract = saved_contract
        finally:
            self.in_clause = saved_clause
            self.env0, self.heap0, self.lists0 = saved_env0, saved_heap0, saved_lists0
            self.frames.pop()

    def kind_matches(self, v, T_):
        """Does the value have the kind (not the range) the variant of the callee was verified for?"""
        if isinstance(T_, TConst):
            try:
                if isinstance(v, (VList, VTuple)) and isinstance(T_.value, (list, tuple)):
                    items = self.iter_concrete(v)
                    return len(items) == len(T_.value) and all(self.lower(self.force(x)) == y for x, y in zip(items, T_.value))
                return self.lower(v) == T_.value or (T_.value is None and isinstance(v, VNone))
            except Exception:
                return isinstance(v, VNone) and T_.value is None
        v = v.val if isinstance(v, VOpt) and not isinstance(T_, TOpt) else v
        if isinstance(T_, TOpt):
            return isinstance(v, (VNone, VOpt)) or self.kind_matches(v, T_.elem)
        if isinstance(T_, TInt):
            return isinstance(v, (VInt, VBool)) and (not isinstance(v, VInt) or v.np == T_.np)
        if isinstance(T_, TEnum):
            return isinstance(v, VEnum) and v.cls is T_.cls
        if isinstance(T_, TFloat):
            return isinstance(v, VFloat) and v.kind == T_.kind
        if isinstance(T_, TBool):
            return isinstance(v, VBool)
        if isinstance(T_, (TObj, TMap)):
            return isinstance(v, VObj)
        if isinstance(T_, TStruct):
            if isinstance(v, VTuple) and v.cls is not None and all(f in getattr(v.cls, "_fields", ()) for f in T_.fields):
                # duck-typed record (e.g. Shape4D passed where a Block was verified): the callee only reads the declared fields
                return True
            return isinstance(v, VStruct)
        if isinstance(T_, TTuple):
            return isinstance(v, VTuple) and len(v.items) == len(T_.items)
        if isinstance(T_, TList):
            return isinstance(v, (VList, VTuple))
        if isinstance(T_, TStr):
            return isinstance(v, (VStr, VStrSym))
        return True

    def conforms(self, v, T_):
        """z3 condition that value v lies in the ranges declared by type T_ (None if nothing to check).
        The union over all variants of a callee is approximated by its first variant's bounds."""
        if isinstance(T_, TInt):
            iv = self.as_int(self.force(v)) if not isinstance(v, VOpt) else None
            if iv is None:
                return None
            cs = []
            if T_.lo is not None:
                cs.append(iv.t >= T_.lo)
            if T_.hi is not None:
                cs.append(iv.t <= T_.hi)
            return z3.And(cs) if cs else None
        if isinstance(T_, TTuple) and isinstance(v, VTuple) and len(v.items) == len(T_.items):
            cs = [self.conforms(x, t) for x, t in zip(v.items, T_.items)]
            cs = [c_ for c_ in cs if c_ is not None]
            return z3.And(cs) if cs else None
        if isinstance(T_, TStruct) and isinstance(v, VStruct):
            cs = [self.conforms(v.fields[k], t) for k, t in T_.fields.items() if k in v.fields]
            cs = [c_ for c_ in cs if c_ is not None]
            return z3.And(cs) if cs else None
        if isinstance(T_, TList) and isinstance(v, VList):
            bounds = self.leaf_bounds(T_.elem)
            if not any(b is not None and (b[0] is not None or b[1] is not None) for b in bounds):
                return None
            st = self._lst(v)
            if st[0] == "conc":
                cs = [self.conforms(x, T_.elem) for x in st[1]]
                cs = [c_ for c_ in cs if c_ is not None]
                return z3.And(cs) if cs else None
            j = z3.Int(self.fresh_name("cf"))
            cs = []
            for a, b in zip(st[2], bounds):
                if b is None:
                    continue
                if b[0] is not None:
                    cs.append(z3.Select(a, j) >= b[0])
                if b[1] is not None:
                    cs.append(z3.Select(a, j) <= b[1])
            return z3.ForAll([j], z3.Implies(z3.And(j >= 0, j < st[1]), z3.And(cs)))
        if isinstance(T_, TOpt):
            if isinstance(v, VNone):
                return None
            if isinstance(v, VOpt):
                inner = self.conforms(v.val, T_.elem)
                return None if inner is None else z3.Or(v.is_none, inner)
            return self.conforms(v, T_.elem)
        return None

    def math_view(self, v):
        """Clauses speak about mathematical values: numpy fixed-width ints are seen as plain integers."""
        if isinstance(v, VInt) and v.np is not None:
            return VInt(v.t, None, v.bv)
        if isinstance(v, VTuple):
            return VTuple([self.math_view(x) for x in v.items], v.cls)
        if isinstance(v, VOpt):
            return VOpt(v.is_none, self.math_view(v.val))
        return v

    def clause_env(self, env):
        return {k: self.math_view(v) for k, v in env.items()}

    def eval_clause(self, text):
        tree = self.contract.parse_clause(text)
        saved = self.in_clause
        self.in_clause = True
        try:
            return self.ev(tree)
        finally:
            self.in_clause = saved

    def call_native(self, obj, args, kwargs, node):
        from .spec import Uninterp, SpecFn, HeapPred
        if isinstance(obj, HeapPred):
            return obj.apply(self, args, kwargs)
        if isinstance(obj, Uninterp):
            return obj.apply(self, args, kwargs)
        if isinstance(obj, SpecFn):
            return obj.apply(self, args, kwargs)
        ext = self.contract.externals.get(qualname_of(obj)) if not isinstance(obj, type) else None
        if ext is not None:
            return ext(self, args, kwargs)
        h = BUILTINS.get(obj) if is_hashable(obj) else None
        if h is not None:
            return h(self, args, kwargs)
        if isinstance(obj, type):
            return self.instantiate(obj, args, kwargs)
        if isinstance(obj, (types.FunctionType,)) or hasattr(obj, "__wrapped__"):
            return self.call_function(obj, args, kwargs)
        if isinstance(obj, types.MethodType):
            return self.call_function(obj.__func__, [self.lift(obj.__self__)] + args, kwargs)
        # methods of immutable natives (str.encode, bytes.__getitem__, ...): run natively on concrete args
        if isinstance(obj, (types.BuiltinFunctionType, types.BuiltinMethodType, types.MethodWrapperType)):
            owner = getattr(obj, "__self__", None)
            if isinstance(owner, (str, bytes, int, float, tuple, frozenset)) or obj in PURE_NATIVE:
                try:
                    return self.lift(obj(*[self.lower(a) for a in args], **{k: self.lower(v) for k, v in kwargs.items()}))
                except ValueError:
                    if isinstance(owner, str) and getattr(obj, "__name__", "") == "format":
                        return VStr("<formatted>")
                    raise Unsupported("native call %r with symbolic arguments" % (obj,))
        raise Unsupported("call of native %r" % (obj,))

    def instantiate(self, cls, args, kwargs):
        ext = self.contract.externals.get("%s:%s" % (getattr(cls, "__module__", ""), getattr(cls, "__qualname__", "")))
        if ext is not None:
            return ext(self, args, kwargs)      # constructor modelled by the contract (record of the arguments)
        if cls in NP_INT_TYPES:
            return self.np_int_cast(NP_INT_TYPES[cls], args[0])
        if issubclass(cls, tuple) and hasattr(cls, "_fields"):
            fields = cls._fields
            vals = list(args)
            custom_new = cls.__dict__.get("__new__")
            if custom_new is not None and inspect.isfunction(getattr(custom_new, "__func__", custom_new)):
                # namedtuple subclass with its own __new__ (e.g. Shape4D): positional parameters map to the fields in
                # order and carry defaults; a single list argument is padded on the left with 1 (full_shape semantics)
                fn_new = getattr(custom_new, "__func__", custom_new)
                if len(vals) == 1 and isinstance(self.force(vals[0]), VList) and not kwargs:
                    items = self.iter_concrete(self.force(vals[0]))
                    if len(items) > len(fields):
                        raise Unsupported("list longer than the namedtuple")
                    vals = [VInt(1)] * (len(fields) - len(items)) + items
                else:
                    dflt = fn_new.__defaults__ or ()
                    pnames = list(inspect.signature(fn_new).parameters)[1:]
                    for kname, kval in list(kwargs.items()):
                        if kname in pnames:
                            idx = pnames.index(kname)
                            while len(vals) <= idx:
                                vals.append(None)
                            vals[idx] = kval
                            del kwargs[kname]
                    for i in range(len(fields)):
                        if i >= len(vals) or vals[i] is None:
                            di = i - (len(pnames) - len(dflt))
                            if di < 0:
                                raise Unsupported("missing NT field %s" % fields[i])
                            if i >= len(vals):
                                vals.append(self.lift(dflt[di]))
                            else:
                                vals[i] = self.lift(dflt[di])
            if len(vals) > len(fields):
                raise Unsupported("too many NT args")
            d = dict(zip(fields, vals))
            for k, v in kwargs.items():
                d[k] = v
            defaults = getattr(cls, "_field_defaults", {})
            items = []
            for f in fields:
                if f in d:
                    items.append(d[f])
                elif f in defaults:
                    items.append(self.lift(defaults[f]))
                else:
                    raise Unsupported("missing NT field %s" % f)
            return VTuple(items, cls)
        if issubclass(cls, BaseException):
            return VNative(cls)
        if issubclass(cls, enum.Enum):
            # Enum(value)
            v = self.lower(args[0])
            return self.lift(cls(v))
        if cls in self.registry.class_fields:
            obj = self.new_object(cls)
            init = cls.__dict__.get("__init__")
            if init is None:
                for base in cls.__mro__[1:]:
                    if "__init__" in base.__dict__ and base is not object:
                        init = base.__dict__["__init__"]
                        break
            if init is not None:
                self.call_function(init, [obj] + args, kwargs)
            return obj
        if cls in self.registry.struct_classes:
            # value-semantics record: run __init__ on a field dictionary
            return self.instantiate_struct(cls, args, kwargs)
        raise Unsupported("instantiation of %s" % cls.__name__)

    def instantiate_struct(self, cls, args, kwargs):
        sv = VStruct(cls, {})
        init = cls.__dict__.get("__init__")
        if init is None:
            raise Unsupported("struct class without __init__")
        self.call_function(init, [sv] + args, kwargs)
        return sv

    def np_int_cast(self, npk, v):
        v = self.force(v)
        lo, hi = np_range(npk)
        if isinstance(v, VFloat):
            # C cast: truncation; out of range is undefined -> model limit obligation
            bits = 64
            iv = z3.BV2Int(z3.fpToSBV(RTZ, v.t, z3.BitVecSort(bits)), is_signed=True)
            self.prove(
                z3.And(z3.Not(z3.fpIsNaN(v.t)), z3.Not(z3.fpIsInf(v.t)), z3.fpLT(v.t, z3.FPVal(2.0 ** 62, v.t.sort())), z3.fpGT(v.t, z3.FPVal(-(2.0 ** 62), v.t.sort()))),
                "model_limit", "float->int cast operand finite and |x| < 2^62")
            return VInt(wrap(iv, npk), npk)
        iv = self.as_int(v)
        if iv is None:
            raise Unsupported("numpy int cast of %r" % (v,))
        if iv.np is None:
            if not self.branch(z3.And(iv.t >= lo, iv.t <= hi)):
                raise PyRaise(OverflowError, "Python integer out of bounds for numpy type", self.cur_line)
            return VInt(iv.t, npk)
        return VInt(self.wrap_np(iv.t, npk), npk)

    def call_builtin_method(self, selfv, name, args, kwargs):
        if name.startswith("list."):
            m = name[5:]
            if m == "append":
                self.list_append(selfv, args[0])
                return NONE
            if m == "extend":
                a0 = self.force(args[0])
                if isinstance(a0, VList) and self._lst(a0)[0] == "sym":
                    self.list_extend(selfv, a0)
                else:
                    for x in self.iter_values(a0):
                        self.list_append(selfv, x)
                return NONE
            if m == "pop":
                if args:
                    c = conc_int(self.as_int(args[0]).t)
                    if c == 0:
                        return self.list_pop0(selfv)
                    if c == -1:
                        return self.list_pop_last(selfv)
                    st = self._lst(selfv)
                    if st[0] == "conc" and c is not None:
                        return st[1].pop(c)
                    raise Unsupported("list.pop(i)")
                return self.list_pop_last(selfv)
            if m == "copy":
                return self.list_copy(selfv)
            if m == "insert":
                st = self._lst(selfv)
                c = conc_int(self.as_int(args[0]).t)
                if st[0] == "conc" and c is not None:
                    st[1].insert(c, args[1])
                    return NONE
            if m == "index":
                st = self._lst(selfv)
                if st[0] == "conc":
                    for i, x in enumerate(st[1]):
                        if self.branch(self.equal(x, args[0])):
                            return VInt(i)
                    raise PyRaise(ValueError, "not in list", self.cur_line)
            raise Unsupported("list.%s" % m)
        if name.startswith("hmap."):
            m = name[5:]
            if m == "get":
                got = self.map_get(selfv, args[0])
                if len(args) > 1:
                    return self.ite(got.is_none, args[1], got.val) if isinstance(got, VOpt) else got
                return got
            if m == "keys":
                return VKeys([selfv])
            items = self.map_items(selfv)
            if m == "items":
                return items
            st = self._lst(items)
            loc = self.new_loc()
            if m == "keys":
                self.lists[loc] = ["sym", st[1], [st[2][0]], PyInt]
            else:
                self.lists[loc] = ["sym", st[1], list(st[2][1:]), selfv.cls.valT]
            return VList(loc)
        if name.startswith("dict."):
            m = name[5:]
            d = selfv.d
            if m == "get":
                k = self.lower(args[0])
                if k in d:
                    return d[k]
                return args[1] if len(args) > 1 else NONE
            if m == "items":
                return VTuple([VTuple([self.lift(k), v]) for k, v in d.items()])
            if m == "keys":
                return VTuple([self.lift(k) for k in d])
            if m == "values":
                return VTuple(list(d.values()))
            raise Unsupported("dict.%s" % m)
        if name == "num.astype":
            t = self.lower(args[0])
            if t in NP_INT_TYPES:
                return self.np_int_cast(NP_INT_TYPES[t], selfv)
            raise Unsupported("astype %r" % (t,))
        if name == "num.item":
            if isinstance(selfv, VInt):
                return VInt(selfv.t)
            return VFloat(selfv.t, selfv.kind, False) if selfv.kind == "f64" else VFloat(z3.fpToFP(RNE, selfv.t, F64S), "f64", False)
        if name == "num.bit_length":
            if not isinstance(selfv, VInt):
                raise PyRaise(AttributeError, "bit_length", self.cur_line)
            x = selfv.t
            c = conc_int(x)
            if c is not None:
                return VInt(c.bit_length())
            ax = z3.If(x >= 0, x, -x)
            self.prove(ax < (1 << 64), "model_limit", "bit_length operand below 2^64")
            return VInt(bitlen_term(ax, 64))
        if name == "num.is_integer":
            if isinstance(selfv, VFloat):
                return VBool(z3.fpEQ(z3.fpRoundToIntegral(RTZ, selfv.t), selfv.t))
            return VBool(True)
        raise Unsupported("method %s" % name)

    # ------------------------------------------------------------------ statements
    def exec_block(self, stmts):
        for s in stmts:
            self.exec_stmt(s)

    def exec_stmt(self, node):
        if hasattr(node, "lineno"):
            self.cur_line = node.lineno
        dl = getattr(self.sh, "deadline", None)
        if dl is not None and time.time() > dl:
            raise Unsupported("time budget of the bounded refutation pass exhausted")
        m = getattr(self, "st_" + type(node).__name__, None)
        if m is None:
            raise Unsupported("statement %s (line %s)" % (type(node).__name__, getattr(node, "lineno", "?")))
        # slices: dropped statements
        sl = self.contract.slice_drop
        if sl is not None and self.call_depth == 0 and sl(node):
            self.sh.dropped = getattr(self.sh, "dropped", set())
            self.sh.dropped.add((node.lineno, type(node).__name__))
            return
        if self.contract.hints and self.call_depth == 0 and not getattr(self.sh, "refute_bound", 0):
            try:
                first = ast.unparse(node).splitlines()[0].strip()
            except Exception:
                first = ""
            for key, clauses in self.contract.hints.items():
                if key.startswith("before:") and first.startswith(key[7:].strip()):
                    steps = []
                    for i, cl in enumerate(clauses):
                        focus = None
                        if i > 0:
                            from . import smt as _smt
                            focus = [f for f in self.pc if not _smt._contains_quantifier(f)] + steps
                        n0 = len(self.pc)
                        self.prove(self.eval_clause(cl), "hint", "%s[%d]" % (key, i), node.lineno, assume_after=True, try_hyps=focus)
                        steps.extend(self.pc[n0:])
        m(node)
        if self.contract.hints and self.call_depth == 0 and not getattr(self.sh, "refute_bound", 0):
            try:
                first = ast.unparse(node).splitlines()[0].strip()
            except Exception:
                first = ""
            for key, clauses in self.contract.hints.items():
                if key.startswith("after:") and first.startswith(key[6:].strip()):
                    steps = []
                    for i, cl in enumerate(clauses):
                        from . import smt as _smt
                        # focused attempt: quantifier-free facts + the most recent assumptions (e.g. the postcondition of the call just made)
                        focus = [f for f in self.pc if not _smt._contains_quantifier(f)] + [f for f in self.pc[-8:] if _smt._contains_quantifier(f)] + steps
                        n0 = len(self.pc)
                        self.prove(self.eval_clause(cl), "hint", "%s[%d]" % (key, i), node.lineno, assume_after=True, try_hyps=focus)
                        steps.extend(self.pc[n0:])
        if self.contract.ghost and self.call_depth == 0:
            try:
                first = ast.unparse(node).splitlines()[0].strip()
            except Exception:
                first = ""
            for key, stmts in self.contract.ghost.items():
                if key.startswith("after:") and first.startswith(key[6:].strip()):
                    for text in stmts:
                        self.exec_ghost(text)
        hook = self.contract.ghost_after.get(getattr(node, "lineno", -1)) if self.call_depth == 0 else None
        if hook is not None:
            hook(self)

    def exec_ghost(self, text):
        """Ghost statement: an assignment whose target is rooted in a declared ghost field."""
        tree = ast.parse(text.strip()).body
        for st in tree:
            if not isinstance(st, (ast.Assign, ast.AugAssign)):
                raise Unsupported("ghost code must be assignments: %r" % text)
            targets = st.targets if isinstance(st, ast.Assign) else [st.target]
            for t in targets:
                root = t
                while isinstance(root, ast.Subscript):
                    root = root.value
                if not (isinstance(root, ast.Attribute) and root.attr in self.contract.ghost_fields):
                    raise Unsupported("ghost statement writes a non-ghost location: %r" % text)
            saved = self.in_clause
            self.in_clause = True   # ghost code is pure specification-level code
            try:
                self.exec_stmt_raw(st)
            finally:
                self.in_clause = saved

    def exec_stmt_raw(self, node):
        getattr(self, "st_" + type(node).__name__)(node)

    def st_Pass(self, node):
        pass

    def st_Expr(self, node):
        if isinstance(node.value, ast.Constant):
            return
        self.ev(node.value)

    def st_Assign(self, node):
        lt = getattr(self.contract, "local_types", None)
        if (lt and self.call_depth == 0 and len(node.targets) == 1 and isinstance(node.targets[0], ast.Name) and node.targets[0].id in lt
                and isinstance(lt[node.targets[0].id], TMap)):
            val = node.value
            empty = (isinstance(val, ast.Dict) and not val.keys) or (
                isinstance(val, ast.Call) and isinstance(val.func, ast.Name) and val.func.id == "dict" and not val.args and not val.keywords)
            if empty:
                # a local dict the contract declares as a heap map (keys may be symbolic): fresh empty map
                self.env[node.targets[0].id] = self.new_map(lt[node.targets[0].id].valT)
                return
        v = self.ev(node.value)
        for t in node.targets:
            self.assign_target(t, v)

    def st_AnnAssign(self, node):
        if node.value is not None:
            self.assign_target(node.target, self.ev(node.value))

    def st_AugAssign(self, node):
        op = BINOPS[type(node.op)]
        t = node.target
        if isinstance(t, ast.Name):
            cur = self.lookup(t.id)
            rhs = self.ev(node.value)
            cur_f = self.force(cur)
            if isinstance(cur_f, VList) and op == "+":
                self.call_builtin_method(cur_f, "list.extend", [rhs], {})
                return
            if isinstance(cur_f, (VObj, VStruct)) and op == "|":
                cls = cur_f.cls
                if hasattr(cls, "__ior__"):
                    r = self.call_function(inspect.getattr_static(cls, "__ior__"), [cur_f, rhs], {})
                    self.env[t.id] = r
                    return
            self.env[t.id] = self.binop(op, cur, rhs)
        elif isinstance(t, ast.Attribute):
            base = self.force(self.ev(t.value))
            cur = self.getattr(base, t.attr)
            rhs = self.ev(node.value)
            self.setattr(base, t.attr, self.binop(op, cur, rhs))
        elif isinstance(t, ast.Subscript):
            base = self.force(self.ev(t.value))
            idx = self.ev(t.slice)
            cur = self.subscript(base, idx)
            rhs = self.ev(node.value)
            cur_f = self.force(cur)
            if isinstance(cur_f, (VObj, VStruct)) and op == "|" and hasattr(cur_f.cls, "__ior__"):
                r = self.call_function(inspect.getattr_static(cur_f.cls, "__ior__"), [cur_f, rhs], {})
                self.store_subscript(base, idx, r)
                return
            self.store_subscript(base, idx, self.binop(op, cur, rhs))
        else:
            raise Unsupported("augassign target")

    def assign_target(self, t, v):
        if isinstance(t, ast.Name):
            self.env[t.id] = v
        elif isinstance(t, (ast.Tuple, ast.List)):
            v = self.force(v)
            try:
                items = self.iter_values(v)
            except ValueError:
                if isinstance(v, VList):
                    n = len(t.elts)
                    if not self.branch(self.list_len(v) == n):
                        raise PyRaise(ValueError, "unpack length mismatch", self.cur_line)
                    items = [self.list_get(v, z3.IntVal(i), check=False) for i in range(n)]
                else:
                    raise Unsupported("unpacking %r" % (v,))
            if len(items) != len(t.elts):
                raise PyRaise(ValueError, "unpack length mismatch", self.cur_line)
            for te, x in zip(t.elts, items):
                self.assign_target(te, x)
        elif isinstance(t, ast.Attribute):
            base = self.force(self.ev(t.value))
            self.setattr(base, t.attr, v)
        elif isinstance(t, ast.Subscript):
            base = self.force(self.ev(t.value))
            self.store_subscript(base, self.ev(t.slice), v)
        else:
            raise Unsupported("assignment target %s" % type(t).__name__)

    def store_subscript(self, base, idx, v):
        if isinstance(base, VObj) and isinstance(base.cls, MapCls):
            self.map_set(base, idx, v)
            return
        if isinstance(base, VList):
            iv = self.as_int(self.force(idx))
            self.list_set(base, iv.t, v)
        elif isinstance(base, VMap):
            base.d[self.lower(idx)] = v
        else:
            raise Unsupported("subscript store on %r" % (base,))

    def setattr(self, base, attr, v):
        if isinstance(base, VObj):
            self.heap_write(base, attr, v)
        elif isinstance(base, VStruct):
            base.fields[attr] = v
        else:
            raise Unsupported("attribute store on %r" % (base,))

    def st_Return(self, node):
        raise ReturnSignal(self.ev(node.value) if node.value is not None else NONE)

    def st_If(self, node):
        c = self.ev(node.test)
        if self.branch(c):
            self.exec_block(node.body)
        else:
            self.exec_block(node.orelse)

    def st_Assert(self, node):
        c = self.ev(node.test)
        if not self.branch(c):
            raise PyRaise(AssertionError, "assert failed", node.lineno)

    def st_Raise(self, node):
        if node.exc is None:
            raise Unsupported("bare raise")
        e = node.exc
        if isinstance(e, ast.Call):
            cls = self.ev(e.func)
        else:
            cls = self.ev(e)
        if isinstance(cls, VNative) and isinstance(cls.obj, type) and issubclass(cls.obj, BaseException):
            raise PyRaise(cls.obj, "", node.lineno)
        raise Unsupported("raise of %r" % (cls,))

    def st_Break(self, node):
        raise BreakSignal()

    def st_Continue(self, node):
        raise ContinueSignal()

    def st_FunctionDef(self, node):
        self.env[node.name] = VClosure(node, (self.env, self.frames[-1].closure_env), self.frames[-1].glob)

    def st_Global(self, node):
        raise Unsupported("global statement")

    def st_Try(self, node):
        if node.finalbody or node.orelse:
            raise Unsupported("try/finally/else")
        try:
            self.exec_block(node.body)
        except PyRaise as ex:
            for h in node.handlers:
                if h.type is None:
                    match = True
                else:
                    tv = self.ev(h.type)
                    classes = tv.obj if isinstance(tv, VNative) else tuple(x.obj for x in tv.items)
                    match = isinstance(ex.cls, type) and issubclass(ex.cls, classes)
                if match:
                    if h.name:
                        self.env[h.name] = VNative(ex.cls)
                    # `raise` inside handler re-raises
                    try:
                        self.exec_block(h.body)
                    except Unsupported as u:
                        if "bare raise" in str(u):
                            raise ex
                        raise
                    return
            raise

    # ------------------------------------------------------------------ loops
    def loop_spec(self, node):
        fr = self.frames[-1]
        if fr.src is None:
            return None, None
        o = fr.src.loop_ord.get(id(node))
        if getattr(self.sh, "refute_bound", 0):
            return o, None      # bounded refutation: loops are executed (up to the bound), invariants play no role
        if self.call_depth == 0:
            return o, self.contract.loops.get(o)
        # inlined callee: its own contract's loop specs apply
        c = self.registry.by_fn.get(id(fr.fn))
        if c is not None:
            return o, c.loops.get(o)
        return o, None

    def st_While(self, node):
        o, spec = self.loop_spec(node)
        if node.orelse:
            raise Unsupported("while/else")
        if spec is None:
            # unroll while the guard is concrete
            n = 0
            while True:
                c = self.truth(self.ev(node.test))
                cb = conc_bool(c)
                if cb is None:
                    K = getattr(self.sh, "refute_bound", 0)
                    if not K:
                        raise Unsupported("while loop #%s (line %d) needs an invariant" % (o, node.lineno))
                    # bounded refutation mode: follow at most K iterations, drop executions that need more
                    if n >= K:
                        if self.branch(c):
                            raise PathEnd()
                        return
                    cb = self.branch(c)
                if not cb:
                    return
                n += 1
                if n > 4096:
                    raise Unsupported("concrete while loop too long")
                try:
                    self.exec_block(node.body)
                except BreakSignal:
                    return
                except ContinueSignal:
                    pass
        if spec.get("unroll"):
            for _ in range(spec["unroll"]):
                if not self.branch(self.ev(node.test)):
                    return
                try:
                    self.exec_block(node.body)
                except BreakSignal:
                    return
                except ContinueSignal:
                    pass
            self.prove(z3.Not(self.truth(self.ev(node.test))), "unwind", "loop#%d exits within %d iterations" % (o, spec["unroll"]), node.lineno)
            return
        self.cut_loop(node, o, spec, guard=lambda: self.ev(node.test), pre_body=None, post_body=None)

    def st_For(self, node):
        o, spec = self.loop_spec(node)
        if node.orelse:
            raise Unsupported("for/else")
        it = self.force(self.ev(node.iter))
        if spec is None or spec.get("unroll"):
            try:
                items = self.iter_values(it)
            except ValueError:
                if spec is None:
                    K = getattr(self.sh, "refute_bound", 0)
                    if not K:
                        raise Unsupported("for loop #%s (line %d) over symbolic iterable needs an invariant" % (o, node.lineno))
                    # bounded refutation mode: executions with at most K iterations of this loop
                    n, getter = self.sym_iter(it)
                    k = 0
                    while True:
                        if not self.branch(n > k):
                            return
                        if k >= K:
                            raise PathEnd()
                        self.assign_target(node.target, getter(z3.IntVal(k)))
                        k += 1
                        try:
                            self.exec_block(node.body)
                        except BreakSignal:
                            return
                        except ContinueSignal:
                            continue
                items = None
            if items is not None:
                for x in items:
                    self.assign_target(node.target, x)
                    try:
                        self.exec_block(node.body)
                    except BreakSignal:
                        break
                    except ContinueSignal:
                        continue
                return
            # bounded unrolling with unwinding assertion (complete when the assertion is discharged)
            n, getter = self.sym_iter(it)
            k = 0
            K = spec["unroll"]
            while k < K:
                if not self.branch(n > k):
                    return
                self.assign_target(node.target, getter(z3.IntVal(k)))
                k += 1
                try:
                    self.exec_block(node.body)
                except BreakSignal:
                    return
                except ContinueSignal:
                    continue
            self.prove(n <= K, "unwind", "loop#%d has at most %d iterations" % (o, K), node.lineno)
            return
        n, getter = self.sym_iter(it)
        itname = "_it%d" % o
        self.env[itname] = VInt(0)
        self.env["_n%d" % o] = VInt(n)

        def guard():
            return VBool(self.env[itname].t < n)

        def pre_body():
            self.assign_target(node.target, getter(self.env[itname].t))

        def post_body():
            self.env[itname] = VInt(self.env[itname].t + 1)

        def head_assume():
            i = self.env[itname].t
            self.assume(z3.And(i >= 0, i <= n))

        self.cut_loop(node, o, spec, guard, pre_body, post_body, head_assume, extra_mod={itname})

    def cut_loop(self, node, o, spec, guard, pre_body, post_body, head_assume=None, extra_mod=()):
        invs = spec.get("invariants", [])
        line = node.lineno
        self.env["_pre%d" % o] = VMap({k: v for k, v in self.env.items() if not k.startswith("_pre")})
        # 1. invariants on entry
        for i, cl in enumerate(invs):
            self.prove(self.eval_clause(cl), "inv_entry", "loop#%d.inv[%d]" % (o, i), line)
        # 2. havoc
        mods = set(assigned_names(node.body)) | set(extra_mod)
        if isinstance(node, ast.For):
            mods |= set(target_names(node.target))
        mods |= set(spec.get("havoc_types", {}).keys())
        lists_mod = set(mutated_list_names(node.body)) | set(spec.get("modifies_lists", []))
        fields_mod = set(assigned_fields(node.body)) | set(spec.get("modifies_fields", []))
        for name in sorted(mods):
            ht = spec.get("havoc_types", {}).get(name)
            if ht is not None:
                self.env[name] = self.fresh(ht, name + "'")
            elif name in self.env:
                v = self.env[name]
                if isinstance(self.force_peek(v), VList):
                    lists_mod.add(name)
                else:
                    self.env[name] = self.havoc_like(v, name + "'")
        for name in sorted(lists_mod):
            if name in self.env and isinstance(self.env[name], VList):
                self.havoc_list(self.env[name], name + "'")
        for lst_expr in spec.get("modifies_list_exprs", []):
            lv = self.eval_clause(lst_expr)
            self.havoc_list(lv, lst_expr + "'")
        for fld in sorted(fields_mod):
            self.havoc_field(fld)
        if self.alloc is not None or spec.get("allocates"):
            a = self.alloc_term()
            na = z3.Int(self.fresh_name("$alloc"))
            self.assume(na >= a)
            self.alloc = na
        if head_assume:
            head_assume()
        for cl in invs:
            self.assume(self.truth(self.eval_clause(cl)))
        # frame snapshot for the dynamic frame check
        heap_snap = dict(self.heap)
        lists_snap = {k: (v[0], v[1] if v[0] == "sym" else list(v[1]), list(v[2]) if v[0] == "sym" else None) for k, v in self.lists.items()}
        havoced_lists = {self.env[n].loc for n in lists_mod if n in self.env and isinstance(self.env[n], VList)}
        dec0 = None
        if spec.get("decreases"):
            dec0 = self.eval_clause(spec["decreases"])
        # 3. one arbitrary iteration, or exit
        if self.branch(guard()):
            exited = False
            try:
                if pre_body:
                    pre_body()
                self.exec_block(node.body)
            except BreakSignal:
                exited = True
            except ContinueSignal:
                pass
            self.frame_check(o, heap_snap, lists_snap, fields_mod, havoced_lists, spec)
            if exited:
                self.cleanup_loop_names(o)
                return
            if post_body:
                post_body()
            for i, cl in enumerate(invs):
                self.prove(self.eval_clause(cl), "inv_preserved", "loop#%d.inv[%d]" % (o, i), line, assume_after=False)
            if dec0 is not None:
                dec1 = self.eval_clause(spec["decreases"])
                self.prove(self.lex_decrease(dec0, dec1), "decreases", "loop#%d variant decreases and is bounded" % o, line, assume_after=False)
            self.sh.exits["loop_cut"] = self.sh.exits.get("loop_cut", 0) + 1
            raise PathEnd()
        self.cleanup_loop_names(o)

    def cleanup_loop_names(self, o):
        pass

    def force_peek(self, v):
        return v.val if isinstance(v, VOpt) else v

    def lex_decrease(self, d0, d1):
        a = d0.items if isinstance(d0, VTuple) else [d0]
        b = d1.items if isinstance(d1, VTuple) else [d1]
        a = [self.as_int(x).t for x in a]
        b = [self.as_int(x).t for x in b]
        # lexicographic: exists k: prefix equal, b[k] < a[k], a[k] >= 0
        alts = []
        for k in range(len(a)):
            alts.append(z3.And([a[i] == b[i] for i in range(k)] + [b[k] < a[k], a[k] >= 0]))
        return z3.Or(alts)

    def frame_check(self, o, heap_snap, lists_snap, fields_mod, havoced_lists, spec):
        for key, arr in self.heap.items():
            fld = key.split("#")[0]
            if fld in fields_mod:
                continue
            old = heap_snap.get(key)
            if old is None:
                # array first touched inside the body: reads only create it; a write makes it a Store term
                if z3.is_const(arr):
                    continue
                raise Unsupported("loop#%d body writes heap field %r that was not havoced (declare modifies_fields)" % (o, fld))
            if not arr.eq(old):
                raise Unsupported("loop#%d body writes heap field %r that was not havoced (declare modifies_fields)" % (o, fld))
        for loc, snap in lists_snap.items():
            if loc in havoced_lists:
                continue
            cur = self.lists.get(loc)
            if cur is None:
                continue
            same = cur[0] == snap[0]
            if same and cur[0] == "conc":
                same = len(cur[1]) == len(snap[1]) and all(x is y for x, y in zip(cur[1], snap[1]))
            elif same:
                same = cur[1].eq(snap[1]) and all(x.eq(y) for x, y in zip(cur[2], snap[2]))
            elif cur[0] == "sym" and snap[0] == "conc":
                same = True  # representation change only (to_sym_list); content equal by construction
            if not same:
                raise Unsupported("loop#%d body mutates a list that was not havoced (declare modifies_lists)" % o)


class VEnumName(V):
    """.name of a symbolic enum member (only substring tests against literals are supported)."""

    def __init__(self, ev):
        self.ev = ev


class VRange(V):
    def __init__(self, start, stop, step):
        self.start, self.stop, self.step = start, stop, step


class VZip(V):
    def __init__(self, parts):
        self.parts = parts


class VEnumerate(V):
    def __init__(self, inner, start):
        self.inner = inner
        self.start = start


class VStarSym(V):
    def __init__(self, v):
        self.v = v


def is_hashable(o):
    try:
        hash(o)
        return True
    except TypeError:
        return False


def qualname_of(fn):
    return "%s:%s" % (getattr(fn, "__module__", "?"), getattr(fn, "__qualname__", getattr(fn, "__name__", "?")))


def assigned_names(stmts):
    out = []

    class Vis(ast.NodeVisitor):
        def visit_FunctionDef(self, n):
            out.append(n.name)

        def visit_Lambda(self, n):
            pass

        def visit_Name(self, n):
            if isinstance(n.ctx, (ast.Store, ast.Del)):
                out.append(n.id)

        def visit_ListComp(self, n):
            # comprehension targets are local to the comprehension
            for g in n.generators:
                self.visit(g.iter)

        visit_GeneratorExp = visit_ListComp
        visit_SetComp = visit_ListComp
        visit_DictComp = visit_ListComp

    for s in stmts:
        Vis().visit(s)
    return out


def target_names(t):
    return [n.id for n in ast.walk(t) if isinstance(n, ast.Name)]


MUTATORS = ("append", "extend", "pop", "insert", "remove", "sort", "clear", "reverse")


def mutated_list_names(stmts):
    out = []
    for s in stmts:
        for n in ast.walk(s):
            if isinstance(n, ast.Call) and isinstance(n.func, ast.Attribute) and n.func.attr in MUTATORS:
                if isinstance(n.func.value, ast.Name):
                    out.append(n.func.value.id)
            if isinstance(n, ast.Subscript) and isinstance(n.ctx, ast.Store) and isinstance(n.value, ast.Name):
                out.append(n.value.id)
            if isinstance(n, ast.AugAssign) and isinstance(n.target, ast.Name):
                out.append(n.target.id)
    return out


def assigned_fields(stmts):
    out = []
    for s in stmts:
        for n in ast.walk(s):
            if isinstance(n, ast.Attribute) and isinstance(n.ctx, ast.Store):
                out.append(n.attr)
            if isinstance(n, ast.AugAssign) and isinstance(n.target, ast.Attribute):
                out.append(n.target.attr)
            if isinstance(n, ast.Call) and isinstance(n.func, ast.Attribute) and n.func.attr in MUTATORS:
                if isinstance(n.func.value, ast.Attribute):
                    out.append(n.func.value.attr)
            if isinstance(n, ast.Subscript) and isinstance(n.ctx, ast.Store) and isinstance(n.value, ast.Attribute):
                out.append(n.value.attr)
    return out


# ----------------------------------------------------------------------------------------------
# builtin models

BUILTINS = {}
PURE_NATIVE = set()


def builtin(*objs):
    def deco(f):
        for o in objs:
            BUILTINS[o] = f
        return f
    return deco


@builtin(int)
def _int(self, args, kw):
    if not args:
        return VInt(0)
    v = self.force(args[0])
    if isinstance(v, VFloat):
        # int(float): truncation toward zero; NaN/inf raise
        if not self.branch(z3.Not(z3.Or(z3.fpIsNaN(v.t), z3.fpIsInf(v.t)))):
            raise PyRaise(ValueError, "cannot convert float NaN/inf to integer", self.cur_line)
        c = simp(v.t)
        if z3.is_fp_value(c):
            return VInt(int(self.lower(VFloat(c, v.kind, False))))
        if v.q is not None:
            n, d = v.q
            return VInt(z3.If(n >= 0, n / d, -((-n) / d)))
        return self.float_to_int(z3.fpRoundToIntegral(RTZ, v.t), "int(float)")
    iv = self.as_int(v)
    if iv is not None:
        return VInt(iv.t)
    if isinstance(v, VStr):
        return VInt(int(v.s, *[self.lower(a) for a in args[1:]]))
    raise Unsupported("int(%r)" % (v,))


@builtin(float, np.float64, np.double)
def _float(self, args, kw):
    v = self.force(args[0])
    r = self.to_float(v, "f64")
    return VFloat(r.t, "f64", False)


@builtin(np.float32)
def _float32(self, args, kw):
    v = self.force(args[0])
    r = self.to_float(v, "f32")
    return VFloat(r.t, "f32", True)


@builtin(bool)
def _bool(self, args, kw):
    return VBool(self.truth(args[0]))


@builtin(len)
def _len(self, args, kw):
    v = self.force(args[0])
    if isinstance(v, VList):
        return VInt(self.list_len(v))
    if isinstance(v, VTuple):
        return VInt(len(v.items))
    if isinstance(v, VStr):
        return VInt(len(v.s))
    if isinstance(v, VMap):
        return VInt(len(v.d))
    if isinstance(v, VNative):
        return VInt(len(v.obj))
    if isinstance(v, VRange):
        n, _ = self.sym_iter(v)
        return VInt(n)
    raise Unsupported("len(%r)" % (v,))


def _minmax(is_max):
    def f(self, args, kw):
        key = kw.get("key")
        default = kw.get("default")
        if len(args) == 1:
            a0 = self.force(args[0])
            try:
                items = self.iter_values(a0)
            except ValueError:
                if isinstance(a0, VList) and key is None:
                    return _sym_list_minmax(self, a0, is_max)
                raise Unsupported("min/max over symbolic iterable")
            if not items:
                if default is not None:
                    return default
                raise PyRaise(ValueError, "min()/max() of empty sequence", self.cur_line)
        else:
            items = list(args)
        best = items[0]
        bk = self.call(key, [best], {}) if key is not None else best
        for x in items[1:]:
            xk = self.call(key, [x], {}) if key is not None else x
            c = self.compare(">" if is_max else "<", xk, bk).t
            cb = conc_bool(c)
            if cb is True:
                best, bk = x, xk
            elif cb is None:
                best = self.ite(c, x, best)
                bk = self.ite(c, xk, bk) if key is not None else best
        return best
    return f


def _sym_list_minmax(self, lv, is_max):
    st = self.to_sym_list(lv)
    if not isinstance(st[3], TInt):
        raise Unsupported("min/max over symbolic list of non-int")
    n = st[1]
    if not self.branch(n > 0):
        raise PyRaise(ValueError, "min()/max() of empty sequence", self.cur_line)
    m = z3.Int(self.fresh_name("max" if is_max else "min"))
    j = z3.Int(self.fresh_name("j"))
    a = st[2][0]
    if is_max:
        self.assume(z3.ForAll([j], z3.Implies(z3.And(j >= 0, j < n), z3.Select(a, j) <= m)))
    else:
        self.assume(z3.ForAll([j], z3.Implies(z3.And(j >= 0, j < n), z3.Select(a, j) >= m)))
    w = z3.Int(self.fresh_name("w"))
    self.assume(z3.And(w >= 0, w < n, z3.Select(a, w) == m))
    return VInt(m, st[3].np)


BUILTINS[max] = _minmax(True)
BUILTINS[min] = _minmax(False)


@builtin(abs)
def _abs(self, args, kw):
    v = self.force(args[0])
    if isinstance(v, VFloat):
        return VFloat(z3.fpAbs(v.t), v.kind, v.isnp)
    iv = self.as_int(v)
    if iv.bv is not None and iv.np is None:
        w = iv.bv.size() + 1
        x = self.sext(iv.bv, w)
        return self.mk_bvint(z3.If(x < 0, -x, x))
    r = z3.If(iv.t >= 0, iv.t, -iv.t)
    return VInt(wrap(r, iv.np) if iv.np else r, iv.np)


@builtin(range)
def _range(self, args, kw):
    vals = [self.as_int(a).t for a in args]
    if len(vals) == 1:
        return VRange(z3.IntVal(0), vals[0], z3.IntVal(1))
    if len(vals) == 2:
        return VRange(vals[0], vals[1], z3.IntVal(1))
    return VRange(vals[0], vals[1], vals[2])


@builtin(zip)
def _zip(self, args, kw):
    return VZip([self.force(a) for a in args])


@builtin(enumerate)
def _enumerate(self, args, kw):
    start = args[1] if len(args) > 1 else kw.get("start", VInt(0))
    return VEnumerate(self.force(args[0]), self.as_int(start).t)


@builtin(list)
def _list(self, args, kw):
    if not args:
        return self.new_list([])
    v = self.force(args[0])
    if isinstance(v, VList):
        return self.list_copy(v)
    try:
        return self.new_list(self.iter_values(v))
    except ValueError:
        n, g = self.sym_iter(v)
        raise Unsupported("list() of symbolic iterable")


@builtin(bytearray)
def _bytearray(self, args, kw):
    """bytearray modelled as a list of ints (the 0..255 range of stored values is not enforced by the model: contracts state it)."""
    if not args:
        return self.new_list([])
    v = self.force(args[0])
    iv = self.as_int(v) if not isinstance(v, (VList, VTuple)) else None
    if iv is not None:
        c = conc_int(iv.t)
        if c is not None:
            if c < 0:
                raise PyRaise(ValueError, "negative count", self.cur_line)
            return self.new_list([VInt(0)] * c)
        if not self.branch(iv.t >= 0):
            raise PyRaise(ValueError, "negative count", self.cur_line)
        loc = self.new_loc()
        self.lists[loc] = ["sym", iv.t, [z3.K(z3.IntSort(), z3.IntVal(0))], PyInt]
        return VList(loc)
    if isinstance(v, VList):
        return self.list_copy(v)
    return self.new_list(self.iter_values(v))


@builtin(tuple)
def _tuple(self, args, kw):
    if not args:
        return VTuple([])
    return VTuple(self.iter_values(self.force(args[0])))


@builtin(isinstance)
def _isinstance(self, args, kw):
    v = self.force(args[0])
    cls = self.force(args[1])
    if isinstance(cls, VTuple):
        classes = tuple(x.obj for x in cls.items)
    else:
        classes = cls.obj
    if isinstance(v, (VObj, VStruct)):
        m = self.registry.isinstance_models.get((v.cls, classes if not isinstance(classes, tuple) else classes[0]))
        if m is not None and isinstance(v, VObj):
            return self.heap_read(v, m)
        if isinstance(v.cls, type):
            return VBool(issubclass(v.cls, classes))
        raise Unsupported("isinstance on abstract class")
    if isinstance(v, VInt):
        cl = classes if isinstance(classes, tuple) else (classes,)
        if v.np is None:
            return VBool(int in cl or any(c is not bool and isinstance(c, type) and issubclass(int, c) for c in cl))
        t = getattr(np, "%sint%d" % ("" if v.np[1] else "u", v.np[0]))
        return VBool(any(issubclass(t, c) for c in cl))
    if isinstance(v, VBool):
        cl = classes if isinstance(classes, tuple) else (classes,)
        return VBool(any(issubclass(bool, c) for c in cl))
    if isinstance(v, VFloat):
        cl = classes if isinstance(classes, tuple) else (classes,)
        t = (np.float64 if v.isnp else float) if v.kind == "f64" else np.float32
        return VBool(any(issubclass(t, c) for c in cl))
    if isinstance(v, VNone):
        return VBool(isinstance(None, classes))
    if isinstance(v, VTuple):
        t = v.cls or tuple
        return VBool(issubclass(t, classes))
    if isinstance(v, VEnum):
        return VBool(issubclass(v.cls, classes))
    if isinstance(v, VList):
        return VBool(issubclass(list, classes))
    if isinstance(v, VStr):
        return VBool(issubclass(str, classes))
    raise Unsupported("isinstance(%r)" % (v,))


@builtin(sorted)
def _sorted(self, args, kw):
    v = self.force(args[0])
    if kw:
        raise Unsupported("sorted with key/reverse")
    if getattr(self.sh, "refute_bound", 0) and isinstance(v, (VList, VTuple)):
        # bounded refutation mode: concrete insertion sort, one case split per comparison (stable, like list.sort)
        items = self.iter_concrete(v)
        out = []
        for x in items:
            pos = len(out)
            while pos > 0 and self.branch(self.compare("<", x, out[pos - 1]).t):
                pos -= 1
            out.insert(pos, x)
        return self.new_list(out)
    if isinstance(v, VList):
        st = self._lst(v)
        if st[0] == "conc" and len(st[1]) <= 1:
            return self.new_list(list(st[1]))
        st = self.to_sym_list(v)
        return self.sorted_axiom(st)
    raise Unsupported("sorted(%r)" % (v,))


@builtin(sum)
def _sum(self, args, kw):
    v = self.force(args[0])
    items = self.iter_values(v)
    acc = args[1] if len(args) > 1 else VInt(0)
    for x in items:
        acc = self.binop("+", acc, x)
    return acc


@builtin(round)
def _round(self, args, kw):
    v = self.force(args[0])
    if len(args) > 1:
        raise Unsupported("round(x, n)")
    if isinstance(v, VFloat):
        # python round(): half to even, returns int
        r = z3.fpRoundToIntegral(z3.RNE(), v.t)
        if not self.branch(z3.Not(z3.Or(z3.fpIsNaN(v.t), z3.fpIsInf(v.t)))):
            raise PyRaise(ValueError, "cannot convert float NaN/inf to integer", self.cur_line)
        return self.float_to_int(r, "round(float)")
    return self.as_int(v)


@builtin(print)
def _print(self, args, kw):
    return NONE


STR_OF = z3.Function("str$of", z3.IntSort(), z3.IntSort())


@builtin(str, repr)
def _str(self, args, kw):
    if args:
        v = self.force(args[0])
        if isinstance(v, (VStr, VStrSym)):
            return v
        if isinstance(v, VNone):
            return VStr("None")
        iv = self.as_int(v)
        if iv is not None:
            c = conc_int(iv.t)
            if c is not None:
                return VStr(str(c))
            return VStrSym(STR_OF(iv.t))
    return VStr("<str>")


@builtin(divmod)
def _divmod(self, args, kw):
    return VTuple([self.binop("//", args[0], args[1]), self.binop("%", args[0], args[1])])


def _make_pure(fn):
    def f(self, args, kw):
        try:
            return self.lift(fn(*[self.lower(a) for a in args], **{k: self.lower(v) for k, v in kw.items()}))
        except ValueError:
            raise Unsupported("pure native %r with symbolic arguments" % (fn,))
    return f


for _fn in (np.iinfo, np.finfo, np.dtype, issubclass, getattr, hasattr, type, chr, ord, hex):
    BUILTINS[_fn] = _make_pure(_fn)


def _fp_round(mode):
    def f(self, args, kw):
        v = self.force(args[0])
        if isinstance(v, VFloat):
            return VFloat(z3.fpRoundToIntegral(mode, v.t), v.kind, True)
        iv = self.as_int(v)
        if iv is not None:
            return self.to_float(iv)
        raise Unsupported("np rounding of %r" % (v,))
    return f


BUILTINS[np.trunc] = _fp_round(RTZ)
BUILTINS[np.floor] = _fp_round(z3.RTN())
BUILTINS[np.ceil] = _fp_round(z3.RTP())
BUILTINS[np.rint] = _fp_round(z3.RNE())


def _math_round(mode):
    def f(self, args, kw):
        v = self.force(args[0])
        if isinstance(v, VFloat) and v.q is not None and not z3.is_fp_value(simp(v.t)):
            n, d = v.q
            if mode is RTZ:
                return VInt(z3.If(n >= 0, n / d, -((-n) / d)))
            if str(mode) == str(z3.RTN()):
                return VInt(n / d)          # floor (d > 0)
            return VInt(-((-n) / d))        # ceil
        if isinstance(v, VFloat):
            if not self.branch(z3.Not(z3.Or(z3.fpIsNaN(v.t), z3.fpIsInf(v.t)))):
                raise PyRaise(ValueError, "cannot convert float NaN/inf to integer", self.cur_line)
            r = z3.fpRoundToIntegral(mode, v.t)
            return _int(self, [VFloat(r, v.kind, False)], {})
        return self.as_int(v)
    return f


BUILTINS[math.floor] = _math_round(z3.RTN())
BUILTINS[math.ceil] = _math_round(z3.RTP())
BUILTINS[math.trunc] = _math_round(RTZ)


FREXP_M_SUB = z3.Function("frexp_m_subnormal", F64S, F64S)
FREXP_E_SUB = z3.Function("frexp_e_subnormal", F64S, z3.IntSort())


@builtin(math.frexp)
def _frexp(self, args, kw):
    """math.frexp: x = m * 2**e with 0.5 <= |m| < 1 (exact, by IEEE bit fields; x normal or zero)."""
    v = self.force(args[0])
    iv = self.as_int(v)
    if iv is not None:
        # int argument: converted to float first; for 0 <= x < 2**53 exact: e = bit_length(x)
        x = iv.t
        if not self.branch(x >= 0):
            raise Unsupported("frexp of negative int")
        self.prove(x < (1 << 53), "model_limit", "frexp(int) operand below 2^53")
        e = bitlen_term(x, 53)
        m = VFloat(z3.FP(self.fresh_name("frexp_m"), F64S), "f64", False)  # mantissa unused by callers of the int form
        self.assume(z3.If(x == 0, z3.fpIsZero(m.t), z3.And(z3.fpGEQ(m.t, z3.FPVal(0.5, F64S)), z3.fpLT(m.t, z3.FPVal(1.0, F64S)))))
        return VTuple([m, VInt(e)])
    if not isinstance(v, VFloat):
        raise Unsupported("frexp(%r)" % (v,))
    x = v.t if v.kind == "f64" else z3.fpToFP(RNE, v.t, F64S)
    c = simp(x)
    if z3.is_fp_value(c):
        m, e = math.frexp(self.lower(VFloat(c, "f64", False)))
        return VTuple([VFloat(z3.FPVal(m, F64S), "f64", False), VInt(e)])
    mk = ("frexp", x.get_id())
    if mk in self.memo and self.memo[mk][0].eq(x) and not self.in_quant:
        return self.memo[mk][1]
    r = _frexp_sym(self, x)
    self.memo[mk] = (x, r)
    return r


def _frexp_sym(self, x):
    if self.branch(z3.fpIsZero(x)):
        return VTuple([VFloat(x, "f64", False), VInt(0)])
    if not self.branch(z3.Not(z3.Or(z3.fpIsNaN(x), z3.fpIsInf(x)))):
        return VTuple([VFloat(x, "f64", False), VInt(0)])
    if self.branch(z3.fpIsSubnormal(x)):
        # sound abstraction for subnormals: only the ranges of (m, e) are known
        m = FREXP_M_SUB(x)
        e = FREXP_E_SUB(x)
        self.assume(z3.And(z3.fpGEQ(z3.fpAbs(m), z3.FPVal(0.5, F64S)), z3.fpLT(z3.fpAbs(m), z3.FPVal(1.0, F64S)),
                           z3.fpIsNegative(m) == z3.fpIsNegative(x), e >= -1073, e <= -1022))
        return VTuple([VFloat(m, "f64", False), VInt(e)])
    bv = z3.fpToIEEEBV(x)
    sign = z3.Extract(63, 63, bv)
    expo = z3.Extract(62, 52, bv)
    frac = z3.Extract(51, 0, bv)
    m = z3.fpFP(sign, z3.BitVecVal(1022, 11), frac)
    e = z3.BV2Int(expo, is_signed=False) - 1022
    return VTuple([VFloat(m, "f64", False), VInt(e)])


def bitlen_term(x, maxbits=64):
    """bit_length of a non-negative Int term as an If-chain."""
    t = z3.IntVal(maxbits)
    for k in range(maxbits - 1, -1, -1):
        t = z3.If(x < (1 << k), z3.IntVal(k), t)
    return t


@builtin(np.log2, math.log2)
def _log2(self, args, kw):
    v = self.force(args[0])
    try:
        x = self.lower(v)
        return self.lift(float(np.log2(x)))
    except ValueError:
        raise Unsupported("log2 of symbolic value")


@builtin(np.sign)
def _sign(self, args, kw):
    iv = self.as_int(self.force(args[0]))
    return VInt(z3.If(iv.t > 0, 1, z3.If(iv.t < 0, -1, 0)), iv.np)


# ----------------------------------------------------------------------------------------------
# spec-level helpers (usable in clauses and spec functions; native versions live in pyvc.contracts)
from . import contracts as _c  # noqa: E402


@builtin(_c.implies)
def _implies(self, args, kw):
    return VBool(z3.Implies(self.truth(args[0]), self.truth(args[1])))


@builtin(_c.bitlen)
def _bitlen(self, args, kw):
    iv = self.as_int(self.force(args[0]))
    c = conc_int(iv.t)
    if c is not None:
        return VInt(int(c).bit_length())
    self.prove(z3.And(iv.t >= 0, iv.t < (1 << 64)), "model_limit", "bitlen operand in [0, 2^64)")
    return VInt(bitlen_term(iv.t, 64))


def _sorted_axiom(self, st):
    """sorted(list): fresh list, same length, ordered (lexicographic on leaves), permutation of the input.
    The permutation is axiomatised through two index maps that are mutually inverse."""
    n = st[1]
    elemT = st[3]
    arrs = [z3.Array(self.fresh_name("sorted"), z3.IntSort(), a.sort().range()) for a in st[2]]
    f = z3.Function(self.fresh_name("perm"), z3.IntSort(), z3.IntSort())
    g = z3.Function(self.fresh_name("perm_inv"), z3.IntSort(), z3.IntSort())
    j = z3.Int(self.fresh_name("j"))
    k = z3.Int(self.fresh_name("k"))
    inr = lambda x: z3.And(x >= 0, x < n)
    self.memo["last_sorted_perm"] = (f, g)
    if self.contract.sorted_mode != "insertion":
        # permutation: out[j] == in[f(j)], in[i] == out[g(i)], f and g mutually inverse on [0, n); triggers on the element reads
        self.assume(z3.ForAll([j], z3.Implies(inr(j), z3.And([inr(f(j)), g(f(j)) == j] + [z3.Select(b, j) == z3.Select(a, f(j)) for a, b in zip(st[2], arrs)])),
                              patterns=[z3.Select(arrs[0], j)]))
        self.assume(z3.ForAll([j], z3.Implies(inr(j), z3.And([inr(g(j)), f(g(j)) == j] + [z3.Select(b, g(j)) == z3.Select(a, j) for a, b in zip(st[2], arrs)])),
                              patterns=[z3.Select(st[2][0], j)]))
    loc = self.new_loc()
    self.lists[loc] = ["sym", n, arrs, elemT]
    out = VList(loc)
    # ordering: for all j < k: out[j] <= out[k]
    saved = dict(self.env)
    xj = self.from_leaves([z3.Select(b, j) for b in arrs], elemT)
    xk = self.from_leaves([z3.Select(b, k) for b in arrs], elemT)
    le = self.compare("<=", xj, xk).t
    self.assume(z3.ForAll([j, k], z3.Implies(z3.And(j >= 0, j < k, k < n), le)))
    if self.contract.sorted_mode == "insertion":
        # Stable sort of (sorted prefix ++ [x]) inserts x after the last element that is not greater than it.
        # Obligation: the prefix in[0 .. n-2] is already sorted. Then the result is assumed to be that insertion.
        ij = self.from_leaves([z3.Select(a, j) for a in st[2]], elemT)
        ik = self.from_leaves([z3.Select(a, k) for a in st[2]], elemT)
        pre_sorted = z3.ForAll([j, k], z3.Implies(z3.And(j >= 0, j < k, k < n - 1), self.compare("<=", ij, ik).t))
        self.prove(n >= 1, "sorted_insertion", "sorted(): list is non-empty", self.cur_line)
        self.prove(pre_sorted, "sorted_insertion", "sorted(): all but the last element are already in order", self.cur_line)
        p = z3.Int(self.fresh_name("ins"))
        self.assume(z3.And(p >= 0, p <= n - 1))
        self.frames[0].env["_ghost_ins"] = VInt(p)
        self.assume(z3.ForAll([j], z3.Implies(z3.And(j >= 0, j < p), z3.And([z3.Select(b, j) == z3.Select(a, j) for a, b in zip(st[2], arrs)]))))
        self.assume(z3.And([z3.Select(b, p) == z3.Select(a, n - 1) for a, b in zip(st[2], arrs)]))
        self.assume(z3.ForAll([j], z3.Implies(z3.And(j > p, j < n), z3.And([z3.Select(b, j) == z3.Select(a, j - 1) for a, b in zip(st[2], arrs)]))))
        self.sh.assumed = getattr(self.sh, "assumed", set())
        self.sh.assumed.add("list.sort/sorted is a stable sort: sorting (sorted prefix ++ [x]) inserts x (axiom, used after proving the prefix sorted)")
    return out


Interp.sorted_axiom = _sorted_axiom


@builtin(math.isfinite, np.isfinite)
def _isfinite(self, args, kw):
    v = self.force(args[0])
    if isinstance(v, VFloat):
        return VBool(z3.Not(z3.Or(z3.fpIsNaN(v.t), z3.fpIsInf(v.t))))
    return VBool(True)


@builtin(math.isnan, np.isnan)
def _isnan(self, args, kw):
    v = self.force(args[0])
    if isinstance(v, VFloat):
        return VBool(z3.fpIsNaN(v.t))
    return VBool(False)


@builtin(np.subtract, np.add)
def _np_elementwise(self, args, kw):
    """np.subtract / np.add on two equal-length integer sequences: a fresh sequence of the element-wise results.
    (numpy int64 array semantics; elements are kept as mathematical ints, the contract proves they stay far below 2**63)"""
    a = self.iter_values(self.force(args[0]))
    b = self.iter_values(self.force(args[1]))
    if len(a) != len(b):
        raise Unsupported("np elementwise op on sequences of different length (broadcast)")
    return self.new_list([self.binop("-", x, y) for x, y in zip(a, b)])


def _np_add(self, args, kw):
    a = self.iter_values(self.force(args[0]))
    b = self.iter_values(self.force(args[1]))
    if len(a) != len(b):
        raise Unsupported("np elementwise op on sequences of different length (broadcast)")
    return self.new_list([self.binop("+", x, y) for x, y in zip(a, b)])


BUILTINS[np.add] = _np_add


@builtin(_c.forall_int)
def _forall_int(self, args, kw):
    f = args[0]
    if not isinstance(f, VClosure):
        raise Unsupported("forall_int expects a lambda")
    j = z3.Int(self.fresh_name("fa"))
    npc = len(self.pc)
    b0 = self.cur_bounds()
    saved_b = (b0.clone(), self._bounds_n, self._bounds_last)
    self.solver.push()
    try:
        self.in_quant += 1
        body = self.truth(self.call_closure(f, [VInt(j)], {}))
        extra = self.pc[npc:]
    finally:
        self.in_quant -= 1
        del self.pc[npc:]
        self.solver.pop()
        self._bounds, self._bounds_n, self._bounds_last = saved_b
    if extra:
        self.assume(z3.ForAll([j], z3.And(extra)))
    return VBool(z3.ForAll([j], body))


@builtin(_c.items_of)
def _items_of(self, args, kw):
    m = self.force(args[0])
    if isinstance(m, VObj) and isinstance(m.cls, MapCls):
        return self.map_items(m)
    raise Unsupported("items_of on %r" % (m,))


@builtin(_c.enum_key)
def _enum_key(self, args, kw):
    return VInt(self.map_key(args[0]))


@builtin(_c.forall_enum)
def _forall_enum(self, args, kw):
    cls = self.lower(args[0])
    f = args[1]
    if not isinstance(f, VClosure):
        raise Unsupported("forall_enum expects a lambda")
    j = z3.Int(self.fresh_name("fe"))
    rng = z3.And(j >= 0, j < len(enum_members(cls)))
    npc = len(self.pc)
    b0 = self.cur_bounds()
    saved_b = (b0.clone(), self._bounds_n, self._bounds_last)
    self.solver.push()
    try:
        self.in_quant += 1
        self.pc.append(rng)
        self.solver_add(rng)
        body = self.truth(self.call_closure(f, [VEnum(cls, j)], {}))
        extra = self.pc[npc + 1:]
    finally:
        self.in_quant -= 1
        del self.pc[npc:]
        self.solver.pop()
        self._bounds, self._bounds_n, self._bounds_last = saved_b
    if extra:
        self.assume(z3.ForAll([j], z3.Implies(rng, z3.And(extra))))
    return VBool(z3.ForAll([j], z3.Implies(rng, body)))


import typing as _typing  # noqa: E402


@builtin(_typing.cast)
def _cast(self, args, kw):
    return args[1]


@builtin(_c.sorted_perm)
def _sorted_perm(self, args, kw):
    if "last_sorted_perm" not in self.memo:
        raise Unsupported("sorted_perm: no symbolic sorted() call on this path")
    f, g = self.memo["last_sorted_perm"]
    return VInt(f(self.as_int(self.force(args[0])).t))


@builtin(_c.sorted_perm_inv)
def _sorted_perm_inv(self, args, kw):
    if "last_sorted_perm" not in self.memo:
        raise Unsupported("sorted_perm_inv: no symbolic sorted() call on this path")
    f, g = self.memo["last_sorted_perm"]
    return VInt(g(self.as_int(self.force(args[0])).t))
