#!/usr/bin/env python3
"""Regenerates MANIFEST.json from the table below (developer tool; keeps the manifest valid at all times)."""
import json, os
HERE = os.path.dirname(os.path.abspath(__file__))

CLAIMED = {
    # id: (level text, level note, technique, design ref)
}
exec(open(os.path.join(HERE, "manifest_table.py")).read())

checks = []
for pid, (text, note, tech, ref) in sorted(CLAIMED.items()):
    checks.append(dict(
        property_id=pid,
        quick_cmd="./check %s --tier quick" % pid,
        thorough_cmd="./check %s --tier thorough" % pid,
        evidence_file="/verif/evidence/%s.json" % pid,
        replay_cmd_template="./check %s --replay {path}" % pid,
        engine="pyvc",
        level_claimed=dict(category="proof", text=text, design_ref=ref),
        level_note=note,
        technique=tech,
    ))
m = dict(
    version=1,
    setup_cmd="./setup.sh",
    hooks=dict(guard="NXP_IMX_ETHOS_U_VELA_VERIF", enable="no source hooks exist in /repo: contracts are sidecars in /verif/contracts and the real source is re-parsed on every run; the guard name is reserved and currently switches nothing",
               baseline_off_cmd="cd /repo && /venv/bin/python -m pytest -ra -q -p no:cacheprovider --timeout=900 --continue-on-collection-errors",
               source_commits=SOURCE_COMMITS, add_only=True),
    engines=[dict(name="pyvc", path="/verif/pyvc", serves_properties=sorted(CLAIMED),
                  kind_free_text="contract-based deductive verifier for a Python subset: symbolic execution of the real /repo AST against sidecar contracts, VCs discharged by z3 / cvc5")],
    checks=checks,
    notes=NOTES,
    not_applicable=[dict(property_id=k, reason=v) for k, v in sorted(NOT_APPLICABLE.items())],
)
json.dump(m, open(os.path.join(HERE, "MANIFEST.json"), "w"), indent=1)
print("MANIFEST.json written:", len(checks), "checks,", len(NOT_APPLICABLE), "not applicable")
