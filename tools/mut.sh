#!/bin/sh
# usage: tools/mut.sh <file under /repo> <sed expr> <contract key> [variant]   -- quick self-test with a one-line mutation
F="/repo/$1"; cp "$F" /tmp/mut_backup.py
sed -i "$2" "$F"
if cmp -s "$F" /tmp/mut_backup.py; then echo "MUTATION DID NOT APPLY"; fi
( cd /verif && TMO=${TMO:-8000} PYVC_FALLBACK=0 PYTHONPATH=/verif:/repo timeout 600 .venv/bin/python tools/dbg.py "$3" $4 2>&1 | tail -${TAIL:-6} )
cp /tmp/mut_backup.py "$F"
git -C /repo status --short | head -3
