#!/bin/sh
# Records, for the properties given (default: all claimed), the obligations discharged on the CURRENT /repo tree in
# /verif/baseline/obligations.json (run on the pinned, unchanged tree only; the file is committed, never written by a check run).
cd /verif
for p in ${@:-C02 C04 C05 C06 C08 C09 C10 C15 C17 C18 C19}; do
  PYVC_NO_INVENTORY=1 ./check $p --tier quick --write-inventory > /tmp/inv_$p.log 2>&1; echo "$p exit=$? $(tail -n 1 /tmp/inv_$p.log)"
done
