#!/bin/sh
# Confirms round-2 seeded changes (from /tmp/wt/out3/<ID>/{c,d}.*) in a scratch worktree of /repo HEAD:
# (1) demo passes on the clean tree, (2) the test suite keeps the baseline summary with the change, (3) demo fails with the change.
WT=/tmp/wt/confirm3
git -C /repo worktree remove --force $WT 2>/dev/null
git -C /repo worktree add -f $WT HEAD >/dev/null 2>&1
cp /repo/ethosu/*.so $WT/ethosu/
cd $WT
base=$(PYTHONPATH=$WT timeout 1200 /venv/bin/python -m pytest -q -p no:cacheprovider --timeout=900 2>&1 | tail -n 1)
echo "baseline: $base"
for d in /tmp/wt/out3/C*; do
  id=$(basename $d)
  for x in e f; do
    [ -f $d/$x.diff ] || continue
    dest=/verif/seeded/${id}_$x
    [ -f $dest/meta.json ] && continue
    cd $WT && git checkout -q -- .
    PYTHONPATH=$WT timeout 900 /venv/bin/python $d/${x}_demo.py >/tmp/wt/confirm3_clean.log 2>&1; c0=$?
    git apply $d/$x.diff || { echo "$id $x: APPLY FAILED"; continue; }
    PYTHONPATH=$WT timeout 900 /venv/bin/python $d/${x}_demo.py >/tmp/wt/confirm3_mut.log 2>&1; c1=$?
    t=$(PYTHONPATH=$WT timeout 1200 /venv/bin/python -m pytest -q -p no:cacheprovider --timeout=900 2>&1 | tail -n 1)
    git checkout -q -- .
    echo "$id $x: demo clean=$c0 mutated=$c1 tests='$t'"
    if [ $c0 -eq 0 ] && [ $c1 -ne 0 ] && [ "$t" != "" ] && [ "$(echo $t | sed 's/ in .*//')" = "$(echo $base | sed 's/ in .*//')" ]; then
      mkdir -p $dest; cp $d/$x.diff $dest/patch.diff; cp $d/${x}_demo.py $dest/demo.py
      /venv/bin/python - "$d/${x}_meta.json" "$dest/meta.json" "$t" "$(tail -n 3 /tmp/wt/confirm3_mut.log | tr '\n' ' ')" <<'PY'
import json,sys
m=json.load(open(sys.argv[1]))
m["confirmed"]={"tree":"/repo HEAD (scratch worktree)","tests_with_change":sys.argv[3],"demo_exit_clean":0,"demo_with_change_tail":sys.argv[4][-300:],
 "ran":"demo on clean tree (exit 0); git apply patch; demo (non-zero exit); full pytest suite (same summary as the unchanged tree); git checkout"}
m["origin"]="independent sub-agent, round 3 (given only the property text and a scratch worktree)"
json.dump(m,open(sys.argv[2],"w"),indent=1)
PY
    else
      echo "   -> NOT confirmed"
    fi
  done
done
cd /; git -C /repo worktree remove --force $WT
