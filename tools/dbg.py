import sys, os
sys.path.insert(0, '/verif'); sys.setrecursionlimit(20000)
from pyvc import runner
reg = runner.load_contracts()
from pyvc.verify import verify_variant
key = sys.argv[1]
c = reg.contracts[key]
for v in ([sys.argv[2]] if len(sys.argv) > 2 else c.variants):
    r = verify_variant(c, v, int(os.environ.get("TMO", "20000")))
    print(v, r['status'], r['message'][-3000:], 'paths', r['paths'], r['exits'], round(r['secs'], 2))
    for o in r['obligations']:
        if o['status'] != 'unsat' or os.environ.get("ALL"):
            print('   ', o['kind'], o['label'], o['status'], o['backend'], o['secs'], o['model'], o['line'])
