#!/bin/sh
# usage: tools/try_seed.sh <patch.diff> <property> [extra check args]   -- applies to /repo, runs the check, reverts.
P="$1"; ID="$2"; shift 2
git -C /repo apply "$P" || { echo "patch does not apply"; exit 9; }
cd /verif && ./check "$ID" "$@" 2>&1 | tail -12
git -C /repo checkout -- .
git -C /repo status --short | head -3
