#!/bin/sh
# usage: tools/seed_sweep.sh [seed dirs...]   -- runs each seeded change's property check against a scratch worktree with the patch applied
# (never touches /repo). Output: one line per seed: <seed> exit=<code> <VIOLATION lines count> ; logs in $SW/<seed>.log
HERE="$(cd "$(dirname "$0")/.." && pwd)"
WT=/tmp/wt/sweeptree_$$
SW=${SWEEP_OUT:-/tmp/wt/sweep}
mkdir -p $SW
git -C /repo worktree remove --force $WT 2>/dev/null
git -C /repo worktree add -f $WT HEAD >/dev/null 2>&1
cp /repo/ethosu/*.so $WT/ethosu/ 2>/dev/null
for d in "$@"; do
  d=$(realpath $d)
  name=$(basename $d)
  pid=$(echo $name | cut -d_ -f1)
  git -C $WT checkout -q -- . 
  if ! git -C $WT apply $d/patch.diff 2>/dev/null; then echo "$name: patch does not apply to HEAD"; continue; fi
  s=$(date +%s)
  ( cd "$HERE" && VERIF_REPO=$WT VERIF_OUT_DIR=$SW/out_$name ./check $pid --tier quick ) > $SW/$name.log 2>&1
  code=$?
  nv=$(grep -c "^VIOLATION property=$pid replay" $SW/$name.log)
  nc=$(grep "^VIOLATION property=$pid replay" $SW/$name.log | grep -vc "no-failing-input-found")
  echo "$name exit=$code violations=$nv with_input=$nc $(( $(date +%s)-s ))s"
done
git -C /repo worktree remove --force $WT
