#!/bin/sh
# Confirms each seeded change in a scratch worktree: (1) demo passes on clean tree, (2) tests keep the 539 baseline with the
# change, (3) demo fails with the change. Confirmed ones are stored under /verif/seeded/<prop>_<x>/.
WT=/tmp/wt/confirm
git -C /repo worktree remove --force $WT 2>/dev/null
git -C /repo worktree add -f $WT 6c8bea8 >/dev/null 2>&1   # the pinned snapshot (before any fix: commit)
cp /repo/ethosu/*.so $WT/ethosu/
for d in /tmp/wt/out/C*; do
  id=$(basename $d)
  for x in a b; do
    [ -f $d/$x.diff ] || continue
    dest=/verif/seeded/${id}_$x
    [ -f $dest/meta.json ] && continue
    cd $WT && git checkout -q -- . 
    PYTHONPATH=$WT timeout 900 /venv/bin/python $d/${x}_demo.py >/tmp/wt/confirm_clean.log 2>&1; c0=$?
    git apply $d/$x.diff || { echo "$id $x: APPLY FAILED"; continue; }
    PYTHONPATH=$WT timeout 900 /venv/bin/python $d/${x}_demo.py >/tmp/wt/confirm_mut.log 2>&1; c1=$?
    PYTHONPATH=$WT timeout 1200 /venv/bin/python -m pytest -q -p no:cacheprovider --timeout=900 2>&1 | tail -1 > /tmp/wt/confirm_tests.log
    t=$(cat /tmp/wt/confirm_tests.log)
    git checkout -q -- .
    echo "$id $x: demo clean=$c0 mutated=$c1 tests='$t'"
    case "$t" in *"4 failed, 539 passed"*) ok=1;; *) ok=0;; esac
    if [ $c0 -eq 0 ] && [ $c1 -ne 0 ] && [ $ok -eq 1 ]; then
      mkdir -p $dest; cp $d/$x.diff $dest/patch.diff; cp $d/${x}_demo.py $dest/demo.py
      /venv/bin/python - "$d/${x}_meta.json" "$dest/meta.json" "$t" "$(tail -3 /tmp/wt/confirm_mut.log | tr '\n' ' ')" <<'PY'
import json,sys
m=json.load(open(sys.argv[1]))
m['confirmed']={'tests_with_change':sys.argv[3],'demo_exit_clean':0,'demo_with_change_tail':sys.argv[4][-400:],
  'ran':'scratch worktree of /repo@6c8bea8: demo on clean tree (exit 0); git apply patch; demo (exit != 0); full pytest suite (4 failed baseline, 539 passed)'}
json.dump(m,open(sys.argv[2],'w'),indent=1)
PY
    fi
  done
done
cd /; git -C /repo worktree remove --force $WT
