#!/bin/sh
# usage: tools/seed_one.sh <seed dir> <contract key> [variant]  -- verify ONE contract against a scratch tree with the seeded patch applied
WT=/tmp/wt/seedone_$$
d=$(realpath $1)
git -C /repo worktree add -f $WT HEAD >/dev/null 2>&1
cp /repo/ethosu/*.so $WT/ethosu/ 2>/dev/null
git -C $WT apply $d/patch.diff || echo "PATCH DOES NOT APPLY"
( cd /verif && TMO=${TMO:-20000} PYTHONPATH=/verif:$WT timeout 1200 .venv/bin/python tools/dbg.py "$2" $3 2>&1 | tail -n ${TAIL:-8} | cut -c1-500 )
git -C /repo worktree remove --force $WT
