"""developer tool: verify one (contract, variant) and print every obligation with its time as it is discharged"""
import sys, os, time
sys.path.insert(0, '/verif'); sys.setrecursionlimit(20000)
from pyvc import runner
reg = runner.load_contracts()
import pyvc.engine as E
orig = E.Engine.prove
T0=time.time()
def prove(self, goal, kind, label, line=None, assume_after=True, try_hyps=None):
    t=time.time()
    r = orig(self, goal, kind, label, line, assume_after, try_hyps)
    o = self.sh.obligations[-1]
    print("%7.1f %6.2fs %-14s %-60s %s %s L%s" % (time.time()-T0, time.time()-t, kind, label[:60], o.status, o.backend, o.line), flush=True)
    return r
E.Engine.prove = prove
from pyvc.verify import verify_variant
c = reg.contracts[sys.argv[1]]
r = verify_variant(c, sys.argv[2], int(os.environ.get("TMO","10000")))
print(r['status'], r['message'][:300], r['paths'], r['exits'], round(r['secs'],1))
