#!/usr/bin/env python3
"""Builds the markdown table of DESIGN 7.7 from the seed sweep logs (/tmp/wt/sweep_*.log lines '<seed> exit=.. violations=.. with_input=..')
and the seeds' meta.json. usage: tools/seed_table.py LOG [LOG...]  (later logs override earlier ones)"""
import json, os, re, sys
res = {}
for path in sys.argv[1:]:
    for line in open(path):
        m = re.match(r"(C\d+_\w) exit=(\d+) violations=(\d+) with_input=(\d+) (\d+)s", line.strip())
        if m:
            res[m.group(1)] = tuple(int(x) for x in m.groups()[1:])
rows = []
for name in sorted(n for n in os.listdir("/verif/seeded") if re.match(r"C\d+_\w$", n)):
    meta = json.load(open("/verif/seeded/%s/meta.json" % name))
    fn = ", ".join(meta.get("functions", []))[:70]
    what = meta.get("summary", "").replace("|", "/").replace("\n", " ")
    what = what[:150] + ("..." if len(what) > 150 else "")
    r = res.get(name)
    if r is None:
        verdict = "not swept"
    else:
        code, nv, ni, secs = r
        if code == 1 and ni > 0:
            verdict = "**caught**, input (%d VIOLATION lines, %d with replayed input)" % (nv, ni)
        elif code == 1:
            verdict = "**caught**, no-input (%d VIOLATION lines)" % nv
        elif code == 0:
            verdict = "missed (check exits 0)"
        elif code == 2:
            verdict = "not decided (exit 2)"
        else:
            verdict = "checker error (exit %d)" % code
    rows.append("| %s | %s | %s | %s |" % (name, fn, what, verdict))
print("| seed | function(s) changed | change | check of that property |")
print("|---|---|---|---|")
print("\n".join(rows))
