"""Contracts for ethosu/vela/driver_actions.py (property C17: the driver payload frames the command stream correctly)."""
import struct

from ethosu.vela import driver_actions as da
from ethosu.vela.architecture_features import Accelerator, ArchitectureFeatures, create_default_arch
from ethosu.vela.errors import VelaError

from pyvc.contracts import contract, implies, bitlen  # noqa: F401
from pyvc.spec import Uninterp
from pyvc.values import *  # noqa: F401,F403
from pyvc import replay as _rp

WORDS = TList(TInt(lo=0, hi=2**32 - 1))
ARCH = TOpaque("ArchitectureFeatures", native=lambda: create_default_arch(Accelerator.Ethos_U55_128))


# ---- spec ------------------------------------------------------------------------------------------------
def tag(id, reserved, param):
    """Driver action word: id in bits 0-7, reserved in 8-15, param in 16-31 (driver ABI)."""
    return id + reserved * 2**8 + param * 2**16


def unpack_words(b):
    """Inverse of struct.pack('<nI', *words): little-endian 32-bit words of a byte string."""
    return list(struct.unpack("<%dI" % (len(b) // 4), b))


COP1 = 0x31504F43  # 'C' 'O' 'P' '1' little endian

contract(
    "ethosu.vela.driver_actions:make_da_tag", props=["C17"],
    types=dict(id=TInt(lo=0, hi=255), reserved=TInt(lo=0, hi=255), param=TInt(lo=0, hi=65535)),
    ensures=["result == tag(id, reserved, param)",
             "result & 0xFF == id", "(result >> 8) & 0xFF == reserved", "result >> 16 == param", "0 <= result < 2**32"],
    returns=PyInt,
)

contract(
    "ethosu.vela.driver_actions:emit_fourcc", props=["C17"],
    types=dict(data=WORDS, fourcc=TConst("COP1")),
    ensures=["len(data) == old(len(data)) + 1", "data[len(data) - 1] == COP1",
             "all(data[i] == old(data)[i] for i in range(old(len(data))))"],
    modifies_lists=["data"],
)

# build_config_word / build_id_word: ctypes bit-field unions over a concrete architecture object. They are pure
# functions of the accelerator; decided by exhaustive native evaluation over the 6 accelerators (see _exhaustive below)
# and used as uninterpreted pure functions in the symbolic part.
config_word_of = Uninterp("build_config_word", TInt(lo=0, hi=2**32 - 1), native=da.build_config_word)
id_word_of = Uninterp("build_id_word", TInt(lo=0, hi=2**32 - 1), native=da.build_id_word)
EXT = {"ethosu.vela.driver_actions:build_config_word": config_word_of.model(),
       "ethosu.vela.driver_actions:build_id_word": id_word_of.model()}

contract(
    "ethosu.vela.driver_actions:emit_config", props=["C17"],
    types=dict(data=WORDS, rel=TInt(lo=0, hi=15), patch=TInt(lo=0, hi=15), arch=ARCH),
    externals=EXT,
    ensures=["len(data) == old(len(data)) + 3",
             "data[len(data) - 3] == tag(da.DACommands.Config, 0, patch * 16 + rel)",
             "data[len(data) - 2] == config_word_of(arch)",
             "data[len(data) - 1] == id_word_of()",
             "all(data[i] == old(data)[i] for i in range(old(len(data))))"],
    modifies_lists=["data"],
)

contract(
    "ethosu.vela.driver_actions:emit_cmd_stream_header", props=["C17"],
    types=dict(data=WORDS, length=TInt(lo=0, hi=2**24 - 1)),
    loops={0: dict(unroll=4)},
    ensures=[
        # the command words that follow start on a 16-byte boundary
        "len(data) % 4 == 0",
        "1 <= len(data) - old(len(data)) - 1 <= 4",
        "all(data[i] == tag(da.DACommands.NOP, 0, 0) for i in range(old(len(data)), len(data) - 1))",
        # declared length: high byte in the reserved field, low 16 bits in the param
        "data[len(data) - 1] == tag(da.DACommands.CmdStream, length >> 16, length & 0xFFFF)",
        "(((data[len(data) - 1] >> 8) & 0xFF) << 16) + (data[len(data) - 1] >> 16) == length",
        "data[len(data) - 1] & 0xFF == da.DACommands.CmdStream",
        "all(data[i] == old(data)[i] for i in range(old(len(data))))",
    ],
    modifies_lists=["data"],
)


def _pack_model(eng, args, kwargs):
    """struct.pack('<nI', *words): axiomatised as the identity view on the word list; every word must fit 32 bits."""
    import z3
    from pyvc.interp import VStarSym
    if len(args) != 2 or not isinstance(args[1], VStarSym):
        raise Unsupported("struct.pack call shape")
    lv = eng.force(args[1].v)
    st = eng.to_sym_list(lv)
    j = z3.Int(eng.fresh_name("w"))
    a = st[2][0]
    ok = z3.ForAll([j], z3.Implies(z3.And(j >= 0, j < st[1]), z3.And(z3.Select(a, j) >= 0, z3.Select(a, j) < 2**32)))
    if not eng.branch(ok):
        raise PyRaise(struct.error, "argument out of range", eng.cur_line)
    return VStruct("bytes_le32", {"words": eng.list_copy(lv)})


def _unpack_model(eng, args, kwargs):
    v = eng.force(args[0])
    return v.fields["words"]


from pyvc.interp import BUILTINS  # noqa: E402
BUILTINS[unpack_words] = _unpack_model

contract(
    "ethosu.vela.driver_actions:create_driver_payload", props=["C17"],
    types=dict(register_command_stream=WORDS, arch=ARCH),
    externals=dict(EXT, **{"_struct:pack": _pack_model}),
    raises=[(VelaError, "len(register_command_stream) >= 2**24")],
    ensures=[
        "unpack_words(result)[0] == COP1",
        "unpack_words(result)[1] == tag(da.DACommands.Config, 0, 16)",
        "unpack_words(result)[2] == config_word_of(arch)",
        "unpack_words(result)[3] == id_word_of()",
        # header length is a multiple of 4 words (16 bytes); its last word declares the stream length
        "(len(unpack_words(result)) - len(register_command_stream)) % 4 == 0",
        "len(unpack_words(result)) - len(register_command_stream) >= 5",
        "unpack_words(result)[len(unpack_words(result)) - len(register_command_stream) - 1]"
        " == tag(da.DACommands.CmdStream, len(register_command_stream) >> 16, len(register_command_stream) & 0xFFFF)",
        "all(unpack_words(result)[i] == tag(da.DACommands.NOP, 0, 0)"
        " for i in range(4, len(unpack_words(result)) - len(register_command_stream) - 1))",
        # the command words follow unmodified and in order
        "all(unpack_words(result)[len(unpack_words(result)) - len(register_command_stream) + i] == register_command_stream[i]"
        " for i in range(len(register_command_stream)))",
    ],
    assumptions=["struct.pack('<nI', *words) is the little-endian concatenation of the 32-bit words (axiom; cross-checked natively)",
                 "build_config_word / build_id_word are pure functions of the architecture (checked by exhaustive native evaluation over "
                 "all ordered pairs of the 6 accelerators)"],
)


# ---- exhaustive native evaluation over the complete finite domain of accelerators --------------------------
# Spec (hardware facts: product id, MACs per clock cycle, SHRAM KiB per core x cores; Ethos-U55/U65 TRMs):
HW = {
    "Ethos_U55_32": (0, 32, 16), "Ethos_U55_64": (0, 64, 16), "Ethos_U55_128": (0, 128, 24), "Ethos_U55_256": (0, 256, 48),
    "Ethos_U65_256": (1, 256, 48), "Ethos_U65_512": (1, 512, 96),
}


def spec_config_word(name):
    product, macs, shram_kb = HW[name]
    return (macs.bit_length() - 1) | (0 << 4) | (shram_kb << 8) | (product << 28)


def spec_id_word():
    from ethosu.vela.ethos_u55_regs.ethos_u55_regs import ARCH_VER
    major, minor, patch = (int(x) for x in ARCH_VER.split("."))
    return (patch << 16) | (minor << 20) | (major << 28)


def _exhaustive(tier, seed):
    out = dict(name="config/id word and whole payload over all accelerators", label="exhaustive (finite domain)",
               bound="6 accelerators x all ordered pairs (2-step call histories) x stream lengths {0,1,2,3,4,5,7,8,65535,65536,65537}",
               cases=0, violations=[], known_lines=[], exhaustive=True)
    accs = list(Accelerator)
    archs = {a: create_default_arch(a) for a in accs}
    bad = []
    for first in accs:
        for second in accs:
            for a in (first, second):
                out["cases"] += 1
                w = da.build_config_word(archs[a])
                if w != spec_config_word(a.name):
                    bad.append("build_config_word(%s) after history [%s] = %#x, spec %#x" % (a.name, first.name, w, spec_config_word(a.name)))
                if da.build_id_word() != spec_id_word():
                    bad.append("build_id_word() = %#x, spec %#x" % (da.build_id_word(), spec_id_word()))
    for a in accs:
        for n in (0, 1, 2, 3, 4, 5, 7, 8, 65535, 65536, 65537):
            out["cases"] += 1
            stream = [(i * 2654435761) & 0xFFFFFFFF for i in range(n)]
            words = unpack_words(da.create_driver_payload(stream, archs[a]))
            hdr = len(words) - n
            ok = (words[0] == COP1 and words[1] == tag(1, 0, 16) and words[2] == spec_config_word(a.name) and words[3] == spec_id_word()
                  and hdr % 4 == 0 and words[hdr:] == stream and words[hdr - 1] == tag(2, n >> 16, n & 0xFFFF)
                  and all(x == tag(5, 0, 0) for x in words[4:hdr - 1]))
            if not ok:
                bad.append("create_driver_payload(len=%d, %s): header %s" % (n, a.name, [hex(x) for x in words[:hdr]]))
    if bad:
        import json, os
        d = os.path.join(_rp.OUT, "replays", "C17")
        os.makedirs(d, exist_ok=True)
        path = os.path.join(d, "exhaustive_accelerators.json")
        json.dump(dict(property="C17", obligation="exhaustive:accelerator table", failures=bad[:20]), open(path, "w"), indent=1)
        out["violations"].append("VIOLATION property=C17 replay=%s" % path)
    return out


_rp.BOUNDED_HOOKS.setdefault("C17", []).append(_exhaustive)
