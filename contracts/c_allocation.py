"""Contracts for the tensor allocators (property C05): hillclimb_allocation.py, greedy_allocation.py, tensor_allocation.py."""
from ethosu.vela import greedy_allocation as ga
from ethosu.vela import hillclimb_allocation as hc
from ethosu.vela.live_range import LiveRange

from pyvc.contracts import REGISTRY, contract, implies, bitlen  # noqa: F401
from pyvc.values import *  # noqa: F401,F403

LRI = TObj(hc.LiveRangeInfo)
REGISTRY.declare_class(
    hc.LiveRangeInfo,
    id=PyInt, start_time=PyInt, end_time=PyInt, size=PyInt, address=PyInt, end_address=PyInt, predecessor=PyInt, turn=PyInt,
    urgency=PyInt, min_alignment=PyInt, neighbours=TList(LRI),
)


# ---- spec --------------------------------------------------------------------------------------------------
def live_together(a, b):
    """Two ranges are alive at a common time step (end times inclusive)."""
    return a.start_time <= b.end_time and b.start_time <= a.end_time


def disjoint(addr_a, size_a, addr_b, size_b):
    return addr_a + size_a <= addr_b or addr_b + size_b <= addr_a


contract(
    "ethosu.vela.hillclimb_allocation:LiveRangeInfo.overlaps", props=["C05"],
    types=dict(self=LRI, addr2=PyInt, size2=PyInt),
    requires=["self.end_address == self.address + self.size", "self.size > 0", "size2 > 0"],
    # for non-empty intervals: overlap == not disjoint
    ensures=["result == (not disjoint(self.address, self.size, addr2, size2))"],
    returns=PyBool, always_inline=True,
)
contract(
    "ethosu.vela.hillclimb_allocation:LiveRangeInfo.is_neighbour", props=["C05"],
    types=dict(self=LRI, lr=LRI),
    ensures=["result == live_together(self, lr)"],
    returns=PyBool, always_inline=True,
)

NOT_ALLOCATED = -1

contract(
    "ethosu.vela.hillclimb_allocation:HillClimbAllocator.allocate_lr", props=["C05"],
    # B: ghost upper bound on every aligned end address of an allocated neighbour (exists for any finite neighbour list)
    types=dict(self=TObj(hc.HillClimbAllocator), lr=LRI, B=PyInt),
    requires=[
        "lr.size >= 0", "lr.min_alignment > 0",
        "all(n is not lr for n in lr.neighbours)",
        "all(n.address == NOT_ALLOCATED or (n.address >= 0 and n.end_address == n.address + n.size and n.size >= 0) for n in lr.neighbours)",
        "all(n.address == NOT_ALLOCATED or ((n.end_address + lr.min_alignment - 1) // lr.min_alignment) * lr.min_alignment <= B for n in lr.neighbours)",
        "B >= 0",
    ],
    loops={
        0: dict(
            invariants=[
                "0 <= address <= B", "address % lr.min_alignment == 0",
                "implies(fits, all(n.address == NOT_ALLOCATED or n.end_address <= address or not (n.address < address + lr.size and address < n.end_address) for n in lr.neighbours))",
            ],
            decreases="(B - address, 0 if fits else 1)",
        ),
        1: dict(
            invariants=[
                "0 <= address <= B", "address % lr.min_alignment == 0",
                "address >= _pre1['address']", "implies(not fits, address > _pre1['address'])",
                "implies(fits, address == _pre1['address'])",
                "implies(fits, all(lr.neighbours[j].address == NOT_ALLOCATED or lr.neighbours[j].end_address <= address"
                " or not (lr.neighbours[j].address < address + lr.size and address < lr.neighbours[j].end_address) for j in range(_it1)))",
            ],
        ),
    },
    ensures=[
        "lr.address >= 0", "lr.address % lr.min_alignment == 0", "lr.end_address == lr.address + lr.size",
        # no allocated neighbour overlaps the chosen interval
        "all(n.address == NOT_ALLOCATED or disjoint(n.address, n.size, lr.address, lr.size) or lr.size == 0 or n.size == 0 for n in lr.neighbours)",
        # frame: nobody else moved
        "all(n.address == old(n.address) for n in lr.neighbours)",
    ],
    modifies=["lr.address", "lr.end_address", "lr.predecessor"],      # cell-level frame: no other live range is touched
)


# ===== Greedy allocator ========================================================================================
LR = TObj(LiveRange)
REGISTRY.declare_class(LiveRange, start_time=PyInt, end_time=PyInt, size=PyInt, alignment=PyInt)
GA = TObj(ga.GreedyAllocator)
REGISTRY.declare_class(ga.GreedyAllocator, memory_required=PyInt, current_allocs=TList(TTuple(PyInt, LR)))


def _set_address_model(eng, args, kwargs):
    """LiveRange.set_address(address): stores the address in the range's tensors (Tensor objects are outside the
    model) and returns it unchanged."""
    return args[1]


def ga_entries_ok(self):
    """addresses >= 0, sizes >= 1, every end below memory_required"""
    return all(self.current_allocs[i][0] >= 0 and self.current_allocs[i][1].size >= 1
               and self.current_allocs[i][0] + self.current_allocs[i][1].size <= self.memory_required
               for i in range(len(self.current_allocs)))


def ga_ordered(self):
    """entries pairwise disjoint and in ascending address order"""
    return all(self.current_allocs[i][0] + self.current_allocs[i][1].size <= self.current_allocs[j][0]
               for i in range(len(self.current_allocs)) for j in range(i + 1, len(self.current_allocs)))


def ga_wf(self):
    """Data-structure invariant of GreedyAllocator.current_allocs."""
    return ga_entries_ok(self) and ga_ordered(self)


contract(
    "ethosu.vela.greedy_allocation:GreedyAllocator.alloc", props=["C05"],
    types=dict(self=GA, new_lr=LR),
    externals={"ethosu.vela.live_range:LiveRange.set_address": _set_address_model},
    sorted_mode="insertion", ghost_results={"_ghost_ins": PyInt},
    requires=["ga_wf(self)", "new_lr.size >= 1", "new_lr.alignment > 0", "self.memory_required >= 0",
              "all(self.current_allocs[i][1] is not new_lr for i in range(len(self.current_allocs)))"],
    loops={
        0: dict(invariants=[
            "best_offset >= 0", "best_offset % new_lr.alignment == 0", "current_offset >= 0",
            # current_offset is the end of the previous entry (0 before the first)
            "implies(_it0 > 0, current_offset == self.current_allocs[_it0 - 1][0] + self.current_allocs[_it0 - 1][1].size)",
            "implies(_it0 == 0, current_offset == 0)",
            # best_offset is either the aligned top, or an aligned gap that fits before entry g (< _it0) and after entry g-1
            "best_offset >= current_top or any("
            " best_offset + aligned_size <= self.current_allocs[g][0]"
            " and (g == 0 or self.current_allocs[g - 1][0] + self.current_allocs[g - 1][1].size <= best_offset)"
            " for g in range(_it0))",
        ]),
    },
    hints={
        # after the gap search, before anything is stored: the chosen interval avoids every live entry
        "before:best_offset = new_lr.set_address(best_offset)": [
            "all(disjoint(best_offset, aligned_size, self.current_allocs[j][0], self.current_allocs[j][1].size) for j in range(len(self.current_allocs)))",
            "aligned_size >= new_lr.size",
        ],
    },
    ensures=[
        "len(self.current_allocs) == old(len(self.current_allocs)) + 1",
        # _ghost_ins: the position at which sorted() inserted the new entry
        "0 <= _ghost_ins < len(self.current_allocs) and self.current_allocs[_ghost_ins][1] is new_lr",
        # the list is the old one with the new entry inserted there
        "all(self.current_allocs[i] == old(self.current_allocs)[i] for i in range(_ghost_ins))",
        "all(self.current_allocs[i] == old(self.current_allocs)[i - 1] for i in range(_ghost_ins + 1, len(self.current_allocs)))",
        # the new entry: aligned and non-negative ...
        "self.current_allocs[_ghost_ins][0] % new_lr.alignment == 0 and self.current_allocs[_ghost_ins][0] >= 0",
        # ... disjoint from every entry that was live ...
        "all(disjoint(self.current_allocs[_ghost_ins][0], new_lr.size, old(self.current_allocs)[j][0], old(self.current_allocs)[j][1].size)"
        "    for j in range(old(len(self.current_allocs))))",
        # ... and memory_required grows exactly to its aligned end
        "self.memory_required == max(old(self.memory_required), self.current_allocs[_ghost_ins][0]"
        " + ((new_lr.size + new_lr.alignment - 1) // new_lr.alignment) * new_lr.alignment)",
        # lemma: everything before it ends below it, everything after it starts above its end
        "all(self.current_allocs[i][0] + self.current_allocs[i][1].size <= self.current_allocs[_ghost_ins][0] for i in range(_ghost_ins))",
        "all(self.current_allocs[_ghost_ins][0] + new_lr.size <= self.current_allocs[i][0] for i in range(_ghost_ins + 1, len(self.current_allocs)))",
        "ga_entries_ok(self)",
        "ga_ordered(self)",
    ],
    modifies=["memory_required", "current_allocs"],
)


# ===== HillClimb: constructor parameters (slice), search loop termination, footprint ============================
from pyvc.slicer import make_slice_drop  # noqa: E402

HCA = TObj(hc.HillClimbAllocator)
REGISTRY.declare_class(
    hc.HillClimbAllocator,
    best_size=PyInt, memory_limit=PyInt, max_iterations=TOpt(PyInt), min_required_size=PyInt, lrs=TList(LRI),
    allocated_addresses=TList(PyInt), available_size=PyInt, target_size=PyInt,
)

contract(
    "ethosu.vela.hillclimb_allocation:HillClimbAllocator.__init__", props=["C05"],
    types=dict(self=HCA, live_ranges=TOpaque("live_ranges"), max_iterations=TOpt(TInt(lo=0)), memory_limit=PyInt),
    # slice: only the statements that define self.max_iterations / self.memory_limit (the iteration bound and the limit
    # the search loop is judged against); the neighbour/urgency construction is dropped here
    slice_drop=make_slice_drop(hc.HillClimbAllocator.__init__, ["max_iterations", "memory_limit"], keep_returns=False),
    ensures=[
        "implies(max_iterations is None, self.max_iterations == hc.HillClimbAllocator.MAX_ITERATIONS)",
        "implies(max_iterations is not None, self.max_iterations == max_iterations)",
        "self.memory_limit == memory_limit",
    ],
    modifies=["max_iterations", "memory_limit"],
)


# ===== bounded stand-in (labelled bounded, never counted as proved): HillClimb neighbour sets and end-to-end allocation ==============
# HillClimbAllocator.__init__ builds lrs_at_time (list of lists) and neighbour lists with sets of objects, search() permutes index
# lists with a random generator: outside the executor's subset in this revision. The same clauses are evaluated natively on the
# real code for EVERY instance of a small scope.
from pyvc import replay as _rp  # noqa: E402


def _hillclimb_small_scope(tier, seed):
    import itertools
    from ethosu.vela.live_range import LiveRange as _LR
    T = 3 if tier == "quick" else 4
    sizes = (16, 48) if tier == "quick" else (16, 48, 80)
    intervals = [(s, e) for s in range(T + 1) for e in range(s, T + 1)]
    shapes = [(s, e, z) for (s, e) in intervals for z in sizes]
    out = dict(name="HillClimbAllocator: neighbour relation of __init__ and live => disjoint / aligned / reported total of allocate(); "
                    "GreedyAllocator.allocate_live_ranges: live => disjoint / aligned / reported total",
               label="bounded",
               bound="all multisets of 2 and 3 live ranges with start <= end in 0..%d, size in %r, alignment 16 (+ one mixed-alignment family), "
                     "max_iterations in (None, 0, 3), memory limit unreachable / unlimited, native evaluation of the real code" % (T, sizes),
               cases=0, violations=[], known_lines=[])
    bad = []

    def mk(spec, align=16):
        lrs = []
        for (s, e, z) in spec:
            lr = _LR(None, align)
            lr.start_time, lr.end_time, lr.size = s, e, z
            lrs.append(lr)
        return lrs

    def check(spec, max_it, align=16, memory_limit=1 << 40):
        import contextlib
        import io
        lrs = mk(spec, align)
        with contextlib.redirect_stdout(io.StringIO()):      # an unreachable memory limit prints a warning
            a = hc.HillClimbAllocator(lrs, max_it, memory_limit)
        for i, x in enumerate(a.lrs):
            want = {j for j, y in enumerate(a.lrs) if j != i and x.start_time <= y.end_time and y.start_time <= x.end_time}
            got = {y.id for y in x.neighbours}
            if got != want or len(x.neighbours) != len(got):
                return "neighbours of range %d are %r, live-together set is %r" % (i, sorted(got), sorted(want))
        addrs = a.allocate()
        for i, (s, e, z) in enumerate(spec):
            if addrs[i] < 0 or addrs[i] % align != 0:
                return "range %d placed at %r (alignment %d)" % (i, addrs[i], align)
            for j in range(i):
                s2, e2, z2 = spec[j]
                if s <= e2 and s2 <= e and not (addrs[i] + z <= addrs[j] or addrs[j] + z2 <= addrs[i]):
                    return "ranges %d and %d are live together and overlap: [%d,%d) [%d,%d)" % (j, i, addrs[j], addrs[j] + z2, addrs[i], addrs[i] + z)
        if a.best_size != max(ad + z for ad, (_s, _e, z) in zip(addrs, spec)):
            return "reported size %r is not the highest end address %r" % (a.best_size, max(ad + z for ad, (_s, _e, z) in zip(addrs, spec)))
        return None

    for n in (2, 3):
        for spec in itertools.combinations_with_replacement(shapes, n):
            for max_it in ((None,) if n == 3 and tier == "quick" else (None, 0, 3)):
                out["cases"] += 1
                msg = check(spec, max_it)
                if msg and len(bad) < 5:
                    bad.append("HillClimbAllocator(%r, max_iterations=%r): %s" % (list(spec), max_it, msg))
                # the same instance with a memory limit the allocator cannot meet (the result must still be a complete, valid allocation)
                out["cases"] += 1
                msg = check(spec, max_it, memory_limit=sizes[0])
                if msg and len(bad) < 5:
                    bad.append("HillClimbAllocator(%r, max_iterations=%r, memory_limit=%d): %s" % (list(spec), max_it, sizes[0], msg))
    for spec in itertools.combinations_with_replacement([(s, e, 24) for (s, e) in intervals], 3):
        out["cases"] += 1
        msg = check(spec, None, align=32)
        if msg and len(bad) < 5:
            bad.append("HillClimbAllocator(%r, alignment 32): %s" % (list(spec), msg))
    # Greedy allocator end to end on the same scope (alloc is proved above; dealloc and the time-ordered driver loop are not under contract)
    class _Graph:
        pass

    def check_greedy(spec, align):
        lrs = mk(spec, align)
        addr = {}
        for lr in lrs:
            lr.set_address = (lambda a, _lr=lr: addr.__setitem__(id(_lr), a) or a)
        g = _Graph()
        g.lrs = lrs
        total = ga.allocate_live_ranges(g, align)
        for i, (s, e, z) in enumerate(spec):
            ai = addr[id(lrs[i])]
            if ai < 0 or ai % align != 0:
                return "range %d placed at %r (alignment %d)" % (i, ai, align)
            for j in range(i):
                s2, e2, z2 = spec[j]
                aj = addr[id(lrs[j])]
                if s <= e2 and s2 <= e and not (ai + z <= aj or aj + z2 <= ai):
                    return "ranges %d and %d are live together and overlap: [%d,%d) [%d,%d)" % (j, i, aj, aj + z2, ai, ai + z)
        want = max(addr[id(lr)] + -(-z // align) * align for lr, (_s, _e, z) in zip(lrs, spec))
        if total != want:
            return "reported total %r is not the highest aligned end %r" % (total, want)
        return None

    for n in (2, 3):
        for spec in itertools.combinations_with_replacement(shapes, n):
            for align in (16, 32):
                out["cases"] += 1
                try:
                    msg = check_greedy(spec, align)
                except Exception as e:  # noqa
                    msg = "raised %s: %s" % (type(e).__name__, e)
                if msg and len(bad) < 5:
                    bad.append("greedy allocate_live_ranges(%r, alignment %d): %s" % (list(spec), align, msg))
    if bad:
        import json
        import os
        d = os.path.join(_rp.OUT, "replays", "C05")
        os.makedirs(d, exist_ok=True)
        path = os.path.join(d, "bounded_hillclimb_small_scope.json")
        json.dump(dict(property="C05", obligation="bounded:hillclimb small scope", failures=bad), open(path, "w"), indent=1)
        out["violations"].append("VIOLATION property=C05 replay=%s" % path)
    return out


_rp.BOUNDED_HOOKS.setdefault("C05", []).append(_hillclimb_small_scope)
