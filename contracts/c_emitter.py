"""Contracts for the command-stream emitter (property C06: register elision is correct for every history, fields fit
their registers) in register_command_stream_generator.py."""
from ethosu.vela import register_command_stream_generator as rg
from ethosu.vela.ethos_u55_regs.ethos_u55_regs import cmd0, cmd1, resampling_mode
from ethosu.vela.register_command_stream_generator import CmdMode, CommandStreamEmitter, RegisterMachine

from pyvc.contracts import REGISTRY, contract, implies  # noqa: F401
from pyvc.values import *  # noqa: F401,F403

REGVAL = TTuple(PyInt, PyInt)                       # (command word, param) for cmd0; (command word, payload) for cmd1
RM = TObj(RegisterMachine)
REGISTRY.declare_class(RegisterMachine, n_banks=PyInt, bank_idx=PyInt, registers=TList(TMap(REGVAL)))
EMIT = TObj(CommandStreamEmitter)
REGISTRY.declare_class(
    CommandStreamEmitter,
    cmd_stream=TList(TTuple(PyInt, TOpt(PyInt))), reg_machine=TList(RM), offset=PyInt,
    # ghost: the register file a decoder of cmd_stream holds: register -> (param, payload)
    decoded=TMap(TTuple(PyInt, PyInt)),
)


def rm_ok(m):
    """single-bank register machine, as constructed"""
    return m.n_banks == 1 and m.bank_idx == 0 and len(m.registers) == 1


contract(
    "ethosu.vela.register_command_stream_generator:RegisterMachine.set_register", props=["C06"],
    variants={"cmd0": dict(self=RM, reg=TEnum(cmd0), value=REGVAL), "cmd1": dict(self=RM, reg=TEnum(cmd1), value=REGVAL)},
    requires=["rm_ok(self)"],
    ensures=[
        "result == (old(self.registers[0][reg]) != value)",
        "self.registers[0][reg] == value",
        "rm_ok(self)",
    ],
    returns=PyBool, modifies_maps=[("self.registers[0]", "reg")],
)

from pyvc.contracts import enum_key, forall_enum, forall_int  # noqa: E402
from pyvc.spec import heap_pred  # noqa: E402
from pyvc.values import enum_members  # noqa: E402

CMD0_FIRST, N_CMD0 = enum_members(cmd0)[0], len(enum_members(cmd0))
CMD1_FIRST, N_CMD1 = enum_members(cmd1)[0], len(enum_members(cmd1))


def machine_of(e, cmd):
    return e.reg_machine[1] if "DMA" in cmd.name else e.reg_machine[0]


def consistent0(e, r):
    """cmd0 register r: what its register machine remembers agrees with what a decoder of the stream holds"""
    return implies(machine_of(e, r).registers[0][r] is not None,
                   e.decoded[r] is not None and machine_of(e, r).registers[0][r][0] >> 16 == e.decoded[r][0]
                   and machine_of(e, r).registers[0][r][1] == e.decoded[r][0])


def consistent1(e, r):
    """cmd1 register r: (command word, payload) remembered == (param, payload) decoded"""
    return implies(machine_of(e, r).registers[0][r] is not None,
                   e.decoded[r] is not None and machine_of(e, r).registers[0][r][0] >> 16 == e.decoded[r][0]
                   and machine_of(e, r).registers[0][r][1] == e.decoded[r][1])


@heap_pred(reads=["reg_machine", "registers", "n_banks", "bank_idx", "decoded", "map:Tuple_PyInt__PyInt_"])
def emit_inv(e):
    """Representation invariant of CommandStreamEmitter: two single-bank register machines with separate maps, and
    every remembered register value is the value the decoded stream holds (so eliding a repeated write is sound)."""
    return (len(e.reg_machine) == 2 and rm_ok(e.reg_machine[0]) and rm_ok(e.reg_machine[1])
            and e.reg_machine[0] is not e.reg_machine[1]
            and e.reg_machine[0].registers[0] is not e.reg_machine[1].registers[0]
            and e.decoded is not e.reg_machine[0].registers[0] and e.decoded is not e.reg_machine[1].registers[0]
            and forall_enum(cmd0, lambda r: consistent0(e, r)) and forall_enum(cmd1, lambda r: consistent1(e, r)))


GHOST = dict(ghost_fields=["decoded"])
REVEAL = dict(reveal=["emit_inv"])

contract(
    "ethosu.vela.register_command_stream_generator:CommandStreamEmitter.get_reg_machine", props=["C06"],
    variants={"cmd0": dict(self=EMIT, cmd=TEnum(cmd0)), "cmd1": dict(self=EMIT, cmd=TEnum(cmd1))},
    requires=["len(self.reg_machine) == 2"],
    ensures=["result is machine_of(self, cmd)"],
    returns=RM, always_inline=True,
)

from enum import Enum  # noqa: E402
from ethosu.vela.ethos_u55_regs.ethos_u55_regs import activation as reg_activation  # noqa: E402


def pval(param):
    """the integer a cmd0 parameter stands for (enum members are written by value)"""
    return int(param.value) if isinstance(param, Enum) else int(param)


contract(
    "ethosu.vela.register_command_stream_generator:CommandStreamEmitter.cmd0_with_param", props=["C06"],
    variants={"int": dict(self=EMIT, cmd=TEnum(cmd0), param=PyInt),
              "enum": dict(self=EMIT, cmd=TEnum(cmd0), param=TEnum(reg_activation)),
              "enum_resampling": dict(self=EMIT, cmd=TEnum(cmd0), param=TEnum(resampling_mode))},
    # no truncation: the value is representable in the 16-bit field (unsigned, or two's complement for signed fields)
    requires=["emit_inv(self)", "-(2**15) <= pval(param) < 2**16"],
    ghost={"after:self.cmd_stream.append((command,))": ["self.decoded[cmd] = (param, 0)"]}, **GHOST, **REVEAL,
    ensures=[
        "len(self.reg_machine) == 2 and rm_ok(self.reg_machine[0]) and rm_ok(self.reg_machine[1])",
        "self.reg_machine[0] is not self.reg_machine[1] and self.reg_machine[0].registers[0] is not self.reg_machine[1].registers[0]",
        "self.decoded is not self.reg_machine[0].registers[0] and self.decoded is not self.reg_machine[1].registers[0]",
        "forall_enum(cmd0, lambda r: consistent0(self, r))",
        "forall_enum(cmd1, lambda r: consistent1(self, r))",
        "emit_inv(self)",
        # the decoder's register now holds the 16-bit value, whether or not a word was emitted
        "self.decoded[cmd] is not None and self.decoded[cmd][0] == pval(param) % 2**16",
        # at most one word is appended, and it encodes (cmd, param)
        "len(self.cmd_stream) == old(len(self.cmd_stream)) or len(self.cmd_stream) == old(len(self.cmd_stream)) + 1",
        "implies(len(self.cmd_stream) == old(len(self.cmd_stream)) + 1, self.cmd_stream[len(self.cmd_stream) - 1][0] == cmd.value + (pval(param) % 2**16) * 2**16)",
        "implies(len(self.cmd_stream) == old(len(self.cmd_stream)) + 1, self.cmd_stream[len(self.cmd_stream) - 1][1] is None)",
        "all(self.cmd_stream[i] == old(self.cmd_stream)[i] for i in range(old(len(self.cmd_stream))))",
        "self.offset == old(self.offset) + 4 * (len(self.cmd_stream) - old(len(self.cmd_stream)))",
    ],
    modifies=["self.cmd_stream", "self.offset"],
    modifies_maps=[("machine_of(self, cmd).registers[0]", "cmd"), ("self.decoded", "cmd")],
)

STREAM_FRAME = [
    "all(self.cmd_stream[i] == old(self.cmd_stream)[i] for i in range(old(len(self.cmd_stream))))",
]

contract(
    "ethosu.vela.register_command_stream_generator:CommandStreamEmitter.cmd1_with_offset", props=["C06"],
    variants={"int": dict(self=EMIT, cmd=TEnum(cmd1), offset=PyInt, param=PyInt)},
    # no truncation: 32-bit payload (unsigned or two's complement), 16-bit param
    # no truncation: the payload fits 32 bits (unsigned or two's complement) -- or it is an address whose bits above 32
    # travel in the param (cmd1_with_address)
    requires=["emit_inv(self)", "0 <= param < 2**16", "-(2**31) <= offset < 2**32 or (offset >= 0 and param == offset // 2**32)"],
    ghost={"after:self.cmd_stream.append((command, offset))": ["self.decoded[cmd] = (param, offset)"]}, **GHOST, **REVEAL,
    ensures=[
        "emit_inv(self)",
        # the decoder's register holds exactly (param, payload), whether or not words were emitted
        "self.decoded[cmd] is not None and self.decoded[cmd][0] == param and self.decoded[cmd][1] == offset % 2**32",
        "len(self.cmd_stream) == old(len(self.cmd_stream)) or len(self.cmd_stream) == old(len(self.cmd_stream)) + 1",
        "implies(len(self.cmd_stream) == old(len(self.cmd_stream)) + 1,"
        " self.cmd_stream[len(self.cmd_stream) - 1][0] == cmd.value + 0x4000 + param * 2**16"
        " and self.cmd_stream[len(self.cmd_stream) - 1][1] == offset % 2**32)",
    ] + STREAM_FRAME + ["self.offset == old(self.offset) + 8 * (len(self.cmd_stream) - old(len(self.cmd_stream)))"],
    modifies=["self.cmd_stream", "self.offset"],
    modifies_maps=[("machine_of(self, cmd).registers[0]", "cmd"), ("self.decoded", "cmd")],
)

contract(
    "ethosu.vela.register_command_stream_generator:CommandStreamEmitter.cmd1_with_address", props=["C06"],
    variants={"int": dict(self=EMIT, cmd=TEnum(cmd1), offset=PyInt)},
    # addresses are at most 40 bits on Ethos-U65 (32 on U55): high bits travel in the param
    requires=["emit_inv(self)", "0 <= offset < 2**48"],
    **GHOST,
    ensures=[
        "emit_inv(self)",
        "self.decoded[cmd] is not None and self.decoded[cmd][0] * 2**32 + self.decoded[cmd][1] == offset",
        "len(self.cmd_stream) == old(len(self.cmd_stream)) or len(self.cmd_stream) == old(len(self.cmd_stream)) + 1",
    ] + STREAM_FRAME,
    modifies=["self.cmd_stream", "self.offset"],
    modifies_maps=[("machine_of(self, cmd).registers[0]", "cmd"), ("self.decoded", "cmd")],
)

contract(
    "ethosu.vela.register_command_stream_generator:CommandStreamEmitter.cmd_wait", props=["C06", "C04"],
    variants={"int": dict(self=EMIT, cmd=TEnum(cmd0, members=[cmd0.NPU_OP_KERNEL_WAIT, cmd0.NPU_OP_DMA_WAIT]), channel=TInt(lo=0, hi=3), outstanding_count=TInt(lo=0, hi=15))},
    requires=["emit_inv(self)"], **GHOST, **REVEAL,
    ensures=[
        "emit_inv(self)",
        # always emitted (never elided); the word carries 16 * channel + count
        "len(self.cmd_stream) == old(len(self.cmd_stream)) + 1",
        "self.cmd_stream[len(self.cmd_stream) - 1][0] == cmd.value + (16 * channel + outstanding_count) * 2**16"
        " and self.cmd_stream[len(self.cmd_stream) - 1][1] is None",
    ] + STREAM_FRAME + ["self.offset == old(self.offset) + 4"],
    modifies=["self.cmd_stream", "self.offset"],
)

OPS = [m for m in enum_members(cmd0) if m.name.startswith("NPU_OP_") and m.name not in ("NPU_OP_KERNEL_WAIT", "NPU_OP_DMA_WAIT")]

contract(
    "ethosu.vela.register_command_stream_generator:CommandStreamEmitter.cmd_do_operation", props=["C06"],
    variants={"int": dict(self=EMIT, cmd=TEnum(cmd0, members=OPS), param=TInt(lo=0, hi=0xFFFF))},
    requires=["emit_inv(self)"], **GHOST, **REVEAL,
    ensures=[
        "emit_inv(self)",
        "len(self.cmd_stream) == old(len(self.cmd_stream)) + 1",
        "self.cmd_stream[len(self.cmd_stream) - 1][0] == cmd.value + param * 2**16 and self.cmd_stream[len(self.cmd_stream) - 1][1] is None",
    ] + STREAM_FRAME + ["self.offset == old(self.offset) + 4"],
    modifies=["self.cmd_stream", "self.offset", "machine_of(self, cmd).bank_idx"],
)

contract(
    "ethosu.vela.register_command_stream_generator:RegisterMachine.switch_bank", props=["C06"],
    types=dict(self=RM), requires=["rm_ok(self)"], ensures=["rm_ok(self)"], modifies=["self.bank_idx"],
)
