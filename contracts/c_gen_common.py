"""C06: the register set common to every block operation (generate_common): composition of the per-group generators."""
from ethosu.vela import register_command_stream_generator as rg
from ethosu.vela.api import (NpuBlockOperation, NpuBlockTraversal, NpuConv2DOperation, NpuLayout, NpuOperationType, NpuResamplingMode, NpuRoundingMode)
from ethosu.vela.errors import ByteAlignmentError, ByteSizeError
from ethosu.vela.ethos_u55_regs.ethos_u55_regs import cmd0, cmd1
from ethosu.vela.tensor import TensorFormat

from pyvc.contracts import REGISTRY, contract, implies  # noqa: F401
from pyvc.values import *  # noqa: F401,F403

from contracts.c_emitter import EMIT, emit_inv, machine_of  # noqa: F401
from contracts.c_generators import ACT, COMMON, D, D_addr, FM, KEEP, KERNEL, PADDING, RANGE, SHAPE3, mm, pack_stride, s16  # noqa: F401
from contracts.c_gen_ifm import _fm_group_clauses, _fm_regs, _fm_requires, addr_alignment  # noqa: F401
from contracts.c_rcs_util import default_strides  # noqa: F401


class _ArchC:
    pass


ARCH_C = TStruct(_ArchC, storage_rounding_quantums=TConst({TensorFormat.NHCWB16: (1, 1, 1, 16)}), ncores=TInt(lo=1, hi=2))


def conv_op(n):
    return TStruct(NpuConv2DOperation, op_type=TConst(NpuOperationType.Conv2D), ifm=FM, ofm=FM, ifm2=TConst(None), ifm2_scalar=TConst(None),
                   ifm_upscale=TEnum(NpuResamplingMode), padding=TOpt(PADDING), kernel=KERNEL, weights=TTuple(*([RANGE] * n)), biases=TTuple(*([RANGE] * n)),
                   activation=TOpt(ACT), block_config=SHAPE3, rounding_mode=TEnum(NpuRoundingMode))


def _abc_capture(eng, args, kwargs):
    """get_arch_block_config (under contract for C15): here the validated configuration is an arbitrary value handed on to generate_shram_registers"""
    from contracts.c_gen_shram import ABC
    v = eng.fresh(ABC, "arch_block_config")
    eng.env["_ghost_abc"] = v
    return v


contract(
    "ethosu.vela.register_command_stream_generator:generate_common",
    variants={"conv2d,%d_ranges" % n: dict(emit=EMIT, npu_op=conv_op(n), block_traversal=TEnum(NpuBlockTraversal), arch=ARCH_C, use_global_scale=PyBool,
                                           op_to_scale=TInt(lo=0, hi=2)) for n in (1,)},
    externals={"ethosu.vela.register_command_stream_generator:get_arch_block_config": _abc_capture},
    requires=_fm_requires("npu_op.ifm") + _fm_requires("npu_op.ofm")[1:] + [
        "npu_op.kernel.dilation_y * (npu_op.kernel.height - 1) < 2**16", "npu_op.kernel.dilation_x * (npu_op.kernel.width - 1) < 2**16"],
    raises=[(ByteAlignmentError, None), (ByteSizeError, None)],
    # after generate_common the decoder holds the complete table of the operation's feature-map, kernel and block registers: every group written
    # by an earlier generator is still there when the later ones have run (frames), so the snapshot at the NPU_OP word is the operation's own
    ensures=KEEP + _fm_group_clauses("IFM", "npu_op.ifm") + _fm_group_clauses("OFM", "npu_op.ofm") + [
        "D(emit, cmd0.NPU_SET_IFM_DEPTH_M1) == npu_op.ifm.shape.depth - 1",
        "D(emit, cmd0.NPU_SET_OFM_HEIGHT_M1) == npu_op.ofm.shape.height - 1 and D(emit, cmd0.NPU_SET_OFM_WIDTH_M1) == npu_op.ofm.shape.width - 1"
        " and D(emit, cmd0.NPU_SET_OFM_DEPTH_M1) == npu_op.ofm.shape.depth - 1",
        "D(emit, cmd0.NPU_SET_IFM_UPSCALE) == rg.resampling_mode_map[npu_op.ifm_upscale].value",
        "implies(npu_op.padding is not None, D(emit, cmd0.NPU_SET_IFM_PAD_TOP) == npu_op.padding.top and D(emit, cmd0.NPU_SET_IFM_PAD_LEFT) == npu_op.padding.left"
        " and D(emit, cmd0.NPU_SET_IFM_PAD_BOTTOM) == npu_op.padding.bottom and D(emit, cmd0.NPU_SET_IFM_PAD_RIGHT) == npu_op.padding.right)",
        "D(emit, cmd0.NPU_SET_KERNEL_HEIGHT_M1) == npu_op.kernel.dilation_y * (npu_op.kernel.height - 1)",
        "D(emit, cmd0.NPU_SET_KERNEL_STRIDE) == pack_stride(npu_op.kernel.stride_x, npu_op.kernel.stride_y, npu_op.kernel.dilation_x, npu_op.kernel.dilation_y,"
        " 1 if block_traversal == NpuBlockTraversal.PART_KERNEL_FIRST else 0)",
        "D(emit, cmd0.NPU_SET_OFM_BLK_HEIGHT_M1) == npu_op.block_config.height - 1 and D(emit, cmd0.NPU_SET_OFM_BLK_WIDTH_M1) == npu_op.block_config.width - 1"
        " and D(emit, cmd0.NPU_SET_OFM_BLK_DEPTH_M1) == npu_op.block_config.depth - 1",
        "D(emit, cmd0.NPU_SET_IFM_IB_END) == _ghost_abc.layout.ib_end and D(emit, cmd0.NPU_SET_AB_START) == _ghost_abc.layout.ab_start",
        "D_addr(emit, cmd1.NPU_SET_WEIGHT_BASE) == npu_op.weights[0].address and emit.decoded[cmd1.NPU_SET_WEIGHT_LENGTH][1] == npu_op.weights[0].length",
        "D_addr(emit, cmd1.NPU_SET_SCALE_BASE) == npu_op.biases[0].address and emit.decoded[cmd1.NPU_SET_SCALE_LENGTH][1] == npu_op.biases[0].length",
    ],
    ghost_results={"_ghost_abc": None},
    modifies=["emit.cmd_stream", "emit.offset"], ghost_fields=["decoded"], props=["C06"],
    modifies_maps=mm(*(_fm_regs("IFM", ("cmd0.NPU_SET_IFM_DEPTH_M1",)) + _fm_regs("OFM", ("cmd0.NPU_SET_OFM_HEIGHT_M1", "cmd0.NPU_SET_OFM_WIDTH_M1", "cmd0.NPU_SET_OFM_DEPTH_M1")) + (
        "cmd0.NPU_SET_IFM_PRECISION", "cmd0.NPU_SET_IFM_UPSCALE", "cmd0.NPU_SET_IFM_PAD_TOP", "cmd0.NPU_SET_IFM_PAD_LEFT", "cmd0.NPU_SET_IFM_PAD_BOTTOM",
        "cmd0.NPU_SET_IFM_PAD_RIGHT", "cmd0.NPU_SET_OFM_PRECISION", "cmd0.NPU_SET_KERNEL_HEIGHT_M1", "cmd0.NPU_SET_KERNEL_WIDTH_M1", "cmd0.NPU_SET_KERNEL_STRIDE",
        "cmd0.NPU_SET_WEIGHT_REGION", "cmd1.NPU_SET_WEIGHT_BASE", "cmd1.NPU_SET_WEIGHT_LENGTH", "cmd1.NPU_SET_WEIGHT1_BASE", "cmd1.NPU_SET_WEIGHT1_LENGTH",
        "cmd0.NPU_SET_SCALE_REGION", "cmd1.NPU_SET_SCALE_BASE", "cmd1.NPU_SET_SCALE_LENGTH", "cmd1.NPU_SET_SCALE1_BASE", "cmd1.NPU_SET_SCALE1_LENGTH",
        "cmd0.NPU_SET_ACTIVATION", "cmd0.NPU_SET_ACTIVATION_MIN", "cmd0.NPU_SET_ACTIVATION_MAX",
        "cmd0.NPU_SET_OFM_BLK_HEIGHT_M1", "cmd0.NPU_SET_OFM_BLK_WIDTH_M1", "cmd0.NPU_SET_OFM_BLK_DEPTH_M1",
        "cmd0.NPU_SET_IFM_IB_END", "cmd0.NPU_SET_AB_START", "cmd0.NPU_SET_IFM2_IB_START", "cmd0.NPU_SET_ACC_FORMAT"))),
    replay=False, tier="thorough",     # 12 minutes of solver time: verified in the thorough tier only
)
