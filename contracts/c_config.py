"""Contracts for configuration / memory-mode resolution (property C18) in architecture_features.py, plus bounded checks
of the path lookup and argparse wiring in vela.py."""
import configparser

from ethosu.vela import architecture_features as af
from ethosu.vela.architecture_features import ArchitectureFeatures, MemPort
from ethosu.vela.errors import ConfigOptionError
from ethosu.vela.tensor import MemArea, MemType

from pyvc.contracts import REGISTRY, contract, implies  # noqa: F401
from pyvc.spec import Uninterp, spec_fn
from pyvc.values import *  # noqa: F401,F403
from pyvc import replay as _rp

# ---- abstract ConfigParser: a finite map section -> key -> string ------------------------------------------------
CFG = TObj(configparser.ConfigParser)
REGISTRY.declare_class(configparser.ConfigParser)
has_section = Uninterp("cfg.has_section", PyBool, native=lambda cfg, s: cfg.has_section(s))
has_option = Uninterp("cfg.has_option", PyBool, native=lambda cfg, s, k: cfg.has_option(s, k))
get = Uninterp("cfg.get", TStr(), native=lambda cfg, s, k: cfg.get(s, k))
CFG_EXT = {
    "configparser:RawConfigParser.has_section": has_section.model(),
    "configparser:RawConfigParser.has_option": has_option.model(),
    "configparser:RawConfigParser.get": get.model(),
}

ARCHF = TObj(ArchitectureFeatures)
REGISTRY.declare_class(
    ArchitectureFeatures,
    vela_config=CFG, axi0_port=TEnum(MemArea), axi1_port=TEnum(MemArea), const_mem_area=TEnum(MemPort), arena_mem_area=TEnum(MemPort),
    cache_mem_area=TEnum(MemPort), arena_cache_size=PyInt, max_address_offset=PyInt, shram_size_bytes=PyInt, ncores=TInt(lo=1, hi=2),
    permanent_storage_mem_area=TEnum(MemArea), feature_map_storage_mem_area=TEnum(MemArea), fast_storage_mem_area=TEnum(MemArea),
)


# ---- spec: documented resolution rule (OPTIONS.md: a section overrides what it inherits, transitively) -----------
@spec_fn(ret=TStr(), unfold=1)
def resolve(cfg, section, key, cur):
    """Own value if the section has the key, else the parent's resolution if it inherits, else the current value."""
    return get(cfg, section, key) if has_option(cfg, section, key) else (
        resolve(cfg, get(cfg, section, "inherit"), key, cur) if has_option(cfg, section, "inherit") else cur)


@spec_fn(ret=PyBool, unfold=1)
def bad_chain(cfg, section):
    """The section is unknown, names itself as parent, or (transitively) inherits from such a section."""
    return (not has_section(cfg, section)) or (has_option(cfg, section, "inherit") and (
        get(cfg, section, "inherit") == section or bad_chain(cfg, get(cfg, section, "inherit"))))


@spec_fn(ret=PyBool, unfold=1)
def chain_has(cfg, section, key):
    """Some section on the inheritance chain defines the key."""
    return has_option(cfg, section, key) or (has_option(cfg, section, "inherit") and chain_has(cfg, get(cfg, section, "inherit"), key))


contract(
    "ethosu.vela.architecture_features:ArchitectureFeatures._read_config", props=["C18"],
    variants={"no_found_list": dict(self=ARCHF, section=TStr(), key=TStr(), current_value=TStr(), found=TConst(None)),
              "found_list": dict(self=ARCHF, section=TStr(), key=TStr(), current_value=TStr(), found=TList(PyBool))},
    externals=CFG_EXT,
    raises=[(ConfigOptionError, "bad_chain(self.vela_config, section)")],
    ensures=[
        "result == resolve(self.vela_config, section, key, current_value)",
        "implies(found is not None, len(found) >= 1 and found[len(found) - 1] == chain_has(self.vela_config, section, key))",
    ],
    returns=TStr(), modifies_lists=["found"],
    assumptions=["ConfigParser is an abstract map (has_section / has_option / get uninterpreted, deterministic)",
                 "inheritance chains are acyclic beyond self-reference (a longer cycle recurses without bound: DESIGN D8); "
                 "partial correctness only"],
)


# ---- memory-mode validation, CLI override, Sram -> OnChipFlash rewrite (suffix slice of _get_vela_config) --------------
from pyvc.slicer import drop_any, drop_before, drop_matching  # noqa: E402


def mapped(self, port):
    """AXI port mapping in the given state."""
    return self.axi0_port if port == MemPort.Axi0 else self.axi1_port


contract(
    "ethosu.vela.architecture_features:ArchitectureFeatures._get_vela_config", props=["C18"],
    types=dict(self=ARCHF, vela_config_files=TConst(None), verbose_config=TConst(False), arena_cache_size_from_cli=TOpt(PyInt)),
    # Suffix slice: everything before the Sram->OnChipFlash rewrite only establishes the fields read from the file /
    # defaults; the suffix is verified for an ARBITRARY such state. Also dropped: the three performance-table copies
    # (numpy arrays) inside the rewrite and the verbose printing.
    slice_drop=drop_any(
        drop_before(ArchitectureFeatures._get_vela_config, "self._mem_port_mapping(self.const_mem_area) == MemArea.Sram"),
        drop_matching(ArchitectureFeatures._get_vela_config, "self.memory_clock_scales[", "self.memory_burst_length[", "self.memory_latency[",
                      "if verbose_config", "print("),
    ),
    raises=[(ConfigOptionError, None)],
    ensures=[
        # normal return => the memory mode is legal
        "mapped(self, self.const_mem_area) in (MemArea.Dram, MemArea.OnChipFlash, MemArea.OffChipFlash)",
        "mapped(self, self.arena_mem_area) in (MemArea.Sram, MemArea.Dram)",
        "mapped(self, self.cache_mem_area) == MemArea.Sram",
        "0 <= self.arena_cache_size <= self.max_address_offset",
        # a command-line arena cache size overrides the file / default value; otherwise that value is kept
        "implies(arena_cache_size_from_cli is not None, self.arena_cache_size == arena_cache_size_from_cli)",
        "implies(arena_cache_size_from_cli is None, self.arena_cache_size == old(self.arena_cache_size))",
        # the storage areas used by the rest of the compiler are the mapped ports
        "self.permanent_storage_mem_area == mapped(self, self.const_mem_area)",
        "self.feature_map_storage_mem_area == mapped(self, self.arena_mem_area)",
        "self.fast_storage_mem_area == mapped(self, self.cache_mem_area)",
        # the rewrite only ever turns an all-Sram mode into const=OnChipFlash on the other port; otherwise nothing is replaced
        "implies(not (old(mapped(self, self.const_mem_area)) == MemArea.Sram and old(self.const_mem_area) == old(self.arena_mem_area) == old(self.cache_mem_area)),"
        " self.const_mem_area == old(self.const_mem_area) and self.axi0_port == old(self.axi0_port) and self.axi1_port == old(self.axi1_port))",
        "self.arena_mem_area == old(self.arena_mem_area) and self.cache_mem_area == old(self.cache_mem_area)",
    ],
    modifies=["const_mem_area", "axi0_port", "axi1_port", "arena_cache_size", "permanent_storage_mem_area",
              "feature_map_storage_mem_area", "fast_storage_mem_area"],
)

contract(
    "ethosu.vela.architecture_features:ArchitectureFeatures._mem_port_mapping", props=["C18", "C02"],
    types=dict(self=ARCHF, mem_port=TEnum(MemPort, members=[MemPort.Axi0, MemPort.Axi1])),
    ensures=["result == mapped(self, mem_port)"],
    returns=TEnum(MemArea), always_inline=True,
)
contract(
    "ethosu.vela.architecture_features:ArchitectureFeatures.is_spilling_enabled", props=["C18", "C02"],
    types=dict(self=ARCHF),
    requires=["self.cache_mem_area in (MemPort.Axi0, MemPort.Axi1)", "self.arena_mem_area in (MemPort.Axi0, MemPort.Axi1)"],
    ensures=["result == (mapped(self, self.cache_mem_area) == MemArea.Sram and self.cache_mem_area != self.arena_mem_area)"],
    returns=PyBool, always_inline=True,
)
contract(
    "ethosu.vela.architecture_features:ArchitectureFeatures.mem_type_size", props=["C18", "C02"],
    types=dict(self=ARCHF, mem_type=TEnum(MemType)),
    requires=["self.cache_mem_area in (MemPort.Axi0, MemPort.Axi1)", "self.arena_mem_area in (MemPort.Axi0, MemPort.Axi1)"],
    # Dedicated-SRAM modes (spilling): the fast scratch limit is the arena cache size; every other case the address space
    ensures=["result == (self.arena_cache_size if (mem_type == MemType.Scratch_fast and mapped(self, self.cache_mem_area) == MemArea.Sram"
             " and self.cache_mem_area != self.arena_mem_area) else self.max_address_offset)"],
    returns=PyInt,
)


# ---- bounded stand-ins (labelled bounded, never counted as proved): path lookup and argparse wiring in vela.main ------------
def _main_wiring(tier, seed):
    """vela.main() is a 300-line closure-heavy CLI function outside the verified subset. Its nested _parse_config is extracted
    mechanically from the real AST and run on a grid of path shapes x working directories; the wiring of main() into
    ArchitectureFeatures is observed by intercepting the constructor."""
    import ast, inspect, os, sys, tempfile, textwrap, io, contextlib
    from ethosu.vela import vela
    from ethosu.vela.errors import InputFileError
    out = dict(name="vela.main: _parse_config path resolution and ArchitectureFeatures wiring", label="bounded",
               bound="12 path shapes x 3 working directories; 3 command lines", cases=0, violations=[], known_lines=[])
    failures = []
    tree = ast.parse(textwrap.dedent(inspect.getsource(vela.main)))
    fdef = next(n for n in ast.walk(tree) if isinstance(n, ast.FunctionDef) and n.name == "_parse_config")
    ns = {"os": os, "CONFIG_FILES_PATH": vela.CONFIG_FILES_PATH, "InputFileError": InputFileError, "print": lambda *a, **k: None}
    exec(compile(ast.Module(body=[fdef], type_ignores=[]), "<_parse_config extracted from vela.main>", "exec"), ns)
    parse = ns["_parse_config"]
    bundled = os.path.join(vela.CONFIG_FILES_PATH, "Arm", "vela.ini")
    with tempfile.TemporaryDirectory() as tmp:
        own = os.path.join(tmp, "own.ini")
        open(own, "w").write("[System_Config.X]\n")
        os.makedirs(os.path.join(tmp, "Arm"))
        shadow = os.path.join(tmp, "Arm", "vela.ini")
        open(shadow, "w").write("[System_Config.Shadow]\n")
        cwd0 = os.getcwd()
        try:
            for cwd in (tmp, "/", os.path.dirname(vela.CONFIG_FILES_PATH)):
                os.chdir(cwd)
                cases = [
                    ("Arm/vela.ini", bundled), ("Arm//vela.ini", bundled), (own, own), (bundled, bundled),
                    ("Arm/nonexistent.ini", InputFileError), ("Arm/vela.txt", InputFileError), ("vela", InputFileError),
                    ("/nonexistent/dir/x.ini", InputFileError), ("Nonexistent/vela.ini", InputFileError),
                ]
                if cwd == tmp:
                    # ('./Arm/vela.ini' normalises to 'Arm/vela.ini' and is then a bundled name: the documentation does not say
                    #  otherwise, so it is not part of the grid)
                    cases += [("own.ini", "own.ini"), ("./own.ini", "own.ini"), ("../" + os.path.basename(tmp) + "/own.ini", os.path.normpath("../" + os.path.basename(tmp) + "/own.ini"))]
                for arg, want in cases:
                    out["cases"] += 1
                    try:
                        got = parse(arg)
                    except InputFileError:
                        got = InputFileError
                    except Exception as e:  # internal exception
                        got = "internal %s" % type(e).__name__
                    if got != want:
                        failures.append("_parse_config(%r) from cwd %s -> %r, documented: %r" % (arg, cwd, got, want))
            # wiring: what main() hands to ArchitectureFeatures
            captured = {}

            class _Stop(Exception):
                pass

            real = af.ArchitectureFeatures

            class fake_arch(real):
                def __init__(self, **kw):
                    captured.update(kw)
                    raise _Stop()
            import ethosu.vela.architecture_features as afm
            for argv, check in (
                (["--config", "Arm/vela.ini", "--system-config", "Ethos_U55_High_End_Embedded", "--memory-mode", "Shared_Sram", "net.tflite"],
                 lambda kw: kw.get("vela_config_files") == [bundled]),
                (["--config", "Arm/vela.ini", "--system-config", "Ethos_U55_High_End_Embedded", "--memory-mode", "Shared_Sram",
                  "--arena-cache-size", "12345", "net.tflite"], lambda kw: kw.get("arena_cache_size") == 12345),
            ):
                out["cases"] += 1
                captured.clear()
                os.chdir(tmp)  # a shadowing ./Arm/vela.ini exists here: the bundled file must still win
                afm.ArchitectureFeatures = fake_arch
                try:
                    with contextlib.redirect_stdout(io.StringIO()), contextlib.redirect_stderr(io.StringIO()):
                        try:
                            vela.main(list(argv))
                        except _Stop:
                            pass
                        except SystemExit:
                            pass
                finally:
                    afm.ArchitectureFeatures = real
                if not captured or not check(captured):
                    failures.append("vela.main(%s) passes %r to ArchitectureFeatures" % (" ".join(argv), {k: captured.get(k) for k in ("vela_config_files", "arena_cache_size")}))
            # D6: without --arena-cache-size the value handed over must be None so that the file/default value survives
            out["cases"] += 1
            captured.clear()
            afm.ArchitectureFeatures = fake_arch
            try:
                with contextlib.redirect_stdout(io.StringIO()), contextlib.redirect_stderr(io.StringIO()):
                    try:
                        vela.main(["--config", "Arm/vela.ini", "--system-config", "Ethos_U55_High_End_Embedded", "--memory-mode", "Shared_Sram", "net.tflite"])
                    except (_Stop, SystemExit):
                        pass
            finally:
                afm.ArchitectureFeatures = real
            if captured.get("arena_cache_size") is not None:
                if captured.get("arena_cache_size") == 384 * 1024:
                    _rp.report_bounded_finding(
                        out, "C18", "D6", "vela.main: --arena-cache-size has the argparse default 393216, so the value is "
                        "never None and always overrides arena_cache_size from the configuration file", dict(captured))
                else:
                    failures.append("vela.main without --arena-cache-size passes arena_cache_size=%r" % (captured.get("arena_cache_size"),))
        finally:
            os.chdir(cwd0)
    if failures:
        import json
        d = os.path.join(_rp.OUT, "replays", "C18")
        os.makedirs(d, exist_ok=True)
        path = os.path.join(d, "bounded_main_wiring.json")
        json.dump(dict(property="C18", obligation="bounded:vela.main wiring", failures=failures[:20]), open(path, "w"), indent=1)
        out["violations"].append("VIOLATION property=C18 replay=%s" % path)
    return out


_rp.BOUNDED_HOOKS.setdefault("C18", []).append(_main_wiring)
