"""Contracts for range_set.py (property C04: conflict detection between memory accesses is exact)."""
from ethosu.vela import range_set as rs
from ethosu.vela.range_set import AccessDirection, MemoryAccessSet, MemoryRangeSet, RangeSet

from pyvc.contracts import REGISTRY, contract, forall_int, implies, sorted_perm, sorted_perm_inv  # noqa: F401
from pyvc.values import *  # noqa: F401,F403

RANGESET = TObj(RangeSet)
REGISTRY.declare_class(RangeSet, ranges=TList(TTuple(PyInt, PyInt)))


def covers(s, b):
    """byte b lies in some range of the set"""
    return any(s.ranges[i][0] <= b < s.ranges[i][1] for i in range(len(s.ranges)))


def rs_wf(s):
    """ranges are non-empty and sorted ascending (lexicographically), as the class comment demands"""
    return (all(s.ranges[i][0] < s.ranges[i][1] for i in range(len(s.ranges)))
            and all(s.ranges[i] <= s.ranges[j] for i in range(len(s.ranges)) for j in range(i + 1, len(s.ranges))))


from pyvc.spec import heap_pred  # noqa: E402


@heap_pred(reads=["ranges"])
def rs_overlap(a, b):
    """two range sets share a byte"""
    return any(any(max(a.ranges[i][0], b.ranges[j][0]) < min(a.ranges[i][1], b.ranges[j][1]) for j in range(len(b.ranges))) for i in range(len(a.ranges)))


contract(
    "ethosu.vela.range_set:RangeSet.intersects", props=["C04"],
    types=dict(self=RANGESET, other=RANGESET),
    requires=["rs_wf(self)", "rs_wf(other)"],
    loops={0: dict(invariants=[
        "0 <= a_idx <= len(a_ranges) and 0 <= b_idx <= len(b_ranges)",
        # nothing left of either pointer intersects anything of the other list
        "all(all(not (max(a_ranges[i][0], b_ranges[j][0]) < min(a_ranges[i][1], b_ranges[j][1])) for j in range(len(b_ranges))) for i in range(a_idx))",
        "all(all(not (max(a_ranges[i][0], b_ranges[j][0]) < min(a_ranges[i][1], b_ranges[j][1])) for i in range(len(a_ranges))) for j in range(b_idx))",
    ])},
    # exact: True iff some range of self shares a byte with some range of other
    ensures=["result == any(any(max(self.ranges[i][0], other.ranges[j][0]) < min(self.ranges[i][1], other.ranges[j][1])"
             " for j in range(len(other.ranges))) for i in range(len(self.ranges)))",
             "result == rs_overlap(self, other)"],      # the same statement through the (here revealed) predicate, for callers
    returns=PyBool, reveal=["rs_overlap"],
)


contract(
    "ethosu.vela.range_set:RangeSet.__init__", props=["C04"],
    variants={"one_range": dict(self=RANGESET, start=TOpt(PyInt), end=TOpt(PyInt), ranges=TConst(None))},
    requires=["implies(start is not None, end is not None and start <= end)"],
    ensures=["rs_wf(self)",
             "forall_int(lambda b: covers(self, b) == (start is not None and start <= b < end))"],
    modifies=["self.ranges"],
)

contract(
    "ethosu.vela.range_set:RangeSet.__or__", props=["C04"],
    types=dict(self=RANGESET, other=RANGESET),
    requires=["rs_wf(self)", "rs_wf(other)"],
    ensures=[
        "rs_wf(result)",
        "lemma: len(result.ranges) == len(self.ranges) + len(other.ranges)",
        # lemmas (ghost permutation of the sort): every output range is an input range, every input range is an output range
        "lemma: all(0 <= sorted_perm(j) < len(result.ranges) and result.ranges[j] == (self.ranges[sorted_perm(j)] if sorted_perm(j) < len(self.ranges)"
        " else other.ranges[sorted_perm(j) - len(self.ranges)]) for j in range(len(result.ranges)))",
        "lemma: all(0 <= sorted_perm_inv(i) < len(result.ranges) and result.ranges[sorted_perm_inv(i)] == self.ranges[i] for i in range(len(self.ranges)))",
        "lemma: all(0 <= sorted_perm_inv(len(self.ranges) + i) < len(result.ranges) and result.ranges[sorted_perm_inv(len(self.ranges) + i)] == other.ranges[i]"
        " for i in range(len(other.ranges)))",
        # the union covers exactly the bytes of both operands: nothing is lost (a lost byte would hide a conflict), nothing invented
        "forall_int(lambda b: implies(covers(result, b), covers(self, b) or covers(other, b)))",
        "forall_int(lambda b: implies(covers(self, b) or covers(other, b), covers(result, b)))",
        "result is not self and result is not other",
    ],
    returns=RANGESET, allocates=True, inline=["ethosu.vela.range_set:RangeSet.__init__"],
)

