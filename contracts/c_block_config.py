"""Contracts for the SHRAM block-configuration allocator (property C15): architecture_allocator.py."""
from ethosu.vela import architecture_allocator as aa
from ethosu.vela.architecture_allocator import ElementwiseUsage, SHRAMLayout
from ethosu.vela.architecture_features import Accelerator, ArchitectureFeatures, Block, create_default_arch

from pyvc.contracts import REGISTRY, contract, implies  # noqa: F401
from pyvc.values import *  # noqa: F401,F403

REGISTRY.declare_struct(SHRAMLayout)
REGISTRY.declare_struct(Block)

ARCHS = {a.name: create_default_arch(a) for a in Accelerator}
# distinct SHRAM configurations of the six accelerators (finite, covered exhaustively)
SHRAMS = {}
for _n, _a in ARCHS.items():
    SHRAMS.setdefault(tuple(_a.shram), []).append(_n)

BLOCK = TStruct(Block, width=TInt(lo=1, hi=65536), height=TInt(lo=1, hi=65536), depth=TInt(lo=1, hi=65536))


# ---- spec (from the SHRAM layout rules of the hardware: partitions in banks, double buffered, bank granules) ----------
def ifm_bytes_spec(blk, ifm_bits):
    """bytes of one IFM block buffer: width x height x (depth bytes rounded up to 8)"""
    return blk.width * blk.height * (((blk.depth * ifm_bits) // 8 + 7) // 8 * 8)


def acc_bytes_spec(blk, acc_bits):
    """bytes of one accumulator buffer: width x height x (depth rounded up to 8) accumulators"""
    return (blk.width * blk.height * ((blk.depth + 7) // 8 * 8) * acc_bits) // 8


contract(
    "ethosu.vela.architecture_allocator:_try_block_config", props=["C15"],
    variants={
        "shram=%s" % "/".join(names): dict(
            shram=TConst(ARCHS[names[0]].shram), ew_usage=TEnum(ElementwiseUsage), ofm_block=BLOCK, ifm_block=BLOCK,
            ifm_bits=TInt(lo=8, hi=32), ifm_granule=TInt(lo=1, hi=64), acc_bits=TInt(lo=16, hi=40), acc_granule=TInt(lo=1, hi=64),
            lut_banks=TInt(lo=0, hi=4))
        for cfg, names in SHRAMS.items()
    },
    requires=["ifm_bits in (8, 16, 32)", "acc_bits in (16, 32, 40)",
              # block volumes of the hardware (block dimensions up to 2**16, buffers far below 2**53 bytes)
              "ofm_block.width * ofm_block.height <= 2**20", "ifm_block.width * ifm_block.height <= 2**20"],
    ensures=[
        # a returned layout is ordered, non-overlapping and inside the bank count
        "implies(result is not None, result.ib_start == shram.reserved_output_banks and result.ib_start <= result.ib_start2"
        " and result.ib_start2 <= result.ib_end and result.ib_end <= result.ab_start and result.ab_start <= result.lut_start"
        " and result.lut_start == shram.total_banks - lut_banks and result.lut_start <= shram.total_banks)",
        # the IFM partition double-buffers the IFM block and is a whole number of granules
        "implies(result is not None, (result.ib_start2 - result.ib_start) * shram.bank_size_bytes >= 2 * ifm_bytes_spec(ifm_block, ifm_bits)"
        " and (result.ib_start2 - result.ib_start) % ifm_granule == 0)",
        # non-elementwise: the accumulator partition double-buffers the OFM block at its granule
        "implies(result is not None and ew_usage == ElementwiseUsage.No,"
        " (result.lut_start - result.ab_start) * shram.bank_size_bytes >= 2 * acc_bytes_spec(ofm_block, acc_bits)"
        " and (result.lut_start - result.ab_start) % acc_granule == 0 and result.ib_end == result.ib_start2)",
        # elementwise with two tensor inputs: a second IFM partition of the same size fits before the accumulators
        "implies(result is not None and ew_usage == ElementwiseUsage.Full, result.ib_start2 + (result.ib_start2 - result.ib_start) <= result.ab_start)",
        "implies(result is not None and ew_usage != ElementwiseUsage.No, result.ib_end == result.ab_start and result.ab_start == result.lut_start)",
    ],
)


# ===== try_block_config: the validation used by both the command-stream generator and the public query ==============
from ethosu.vela.architecture_allocator import ArchitectureBlockConfig  # noqa: E402
from ethosu.vela.ethos_u55_regs.ethos_u55_regs import resampling_mode  # noqa: E402
from ethosu.vela.operation import Kernel, NpuBlockType, PointXY  # noqa: E402

REGISTRY.declare_struct(ArchitectureBlockConfig)
REGISTRY.declare_struct(Kernel)

SHAPE = TStruct(Block, width=TInt(lo=1, hi=65535), height=TInt(lo=1, hi=65535), depth=TInt(lo=1, hi=65535))
KERNEL = TStruct(Kernel, width=TInt(lo=1, hi=65536), height=TInt(lo=1, hi=256),
                 stride=TTuple(TInt(lo=1, hi=3), TInt(lo=1, hi=3), cls=PointXY), dilation=TTuple(TInt(lo=1, hi=2), TInt(lo=1, hi=2), cls=PointXY))


def ublock_ok(block_config, arch):
    """positive multiple of the micro-block and within the maximum block, per axis"""
    return (0 < block_config.height <= arch.ofm_block_max.height and block_config.height % arch.ofm_ublock.height == 0
            and 0 < block_config.width <= arch.ofm_block_max.width and block_config.width % arch.ofm_ublock.width == 0
            and 0 < block_config.depth <= arch.ofm_block_max.depth and block_config.depth % arch.ofm_ublock.depth == 0)


contract(
    "ethosu.vela.architecture_allocator:try_block_config", props=["C15"],
    variants={
        "%s,ifm_bits=%d" % (name, bits): dict(
            block_config=TStruct(Block, width=TInt(lo=-4, hi=70000), height=TInt(lo=-4, hi=70000), depth=TInt(lo=-4, hi=70000)),
            arch=TConst(arch), npu_op_type=TEnum(NpuBlockType), ofm_shape=SHAPE, ifm_shape=SHAPE, ifm2_shape=TOpt(SHAPE),
            uses_scalar=PyBool, ifm_bits=TConst(bits), is_partkernel=PyBool, kernel=KERNEL, lut_banks=TInt(lo=0, hi=2),
            scaled=PyBool, ifm_resampling=TEnum(resampling_mode))
        for name, arch in ARCHS.items() for bits in (8, 16, 32)
    },
    ensures=[
        "implies(result is not None, ublock_ok(block_config, arch))",
        "implies(result is not None, result.ofm_block == block_config and result.is_partkernel == is_partkernel and result.bank_size == arch.shram_bank_size)",
        # the layout is ordered, non-overlapping and inside the accelerator's bank count (facts carried over from _try_block_config)
        "implies(result is not None, result.layout.ib_start == arch.shram.reserved_output_banks and result.layout.ib_start <= result.layout.ib_start2"
        " and result.layout.ib_start2 <= result.layout.ib_end and result.layout.ib_end <= result.layout.ab_start"
        " and result.layout.ab_start <= result.layout.lut_start and result.layout.lut_start <= arch.shram.total_banks)",
        # a look-up table never shares banks with the other partitions
        "implies(result is not None, result.layout.lut_start == arch.shram.total_banks - max(lut_banks, arch.shram.reserved_end_banks))",
        # the accumulator partition double-buffers the (Conv1D-optimised) OFM block
        "implies(result is not None and npu_op_type != NpuBlockType.ElementWise,"
        " (result.layout.lut_start - result.layout.ab_start) * arch.shram.bank_size_bytes >= 2 * acc_bytes_spec("
        "   aa.fit_block_for_ofm(arch, ofm_shape, kernel, block_config), 40 if (ifm_bits == 16 and npu_op_type != NpuBlockType.Pooling and scaled) else 32))",
        # the IFM partition double-buffers the IFM block needed for one OFM block
        "implies(result is not None, (result.layout.ib_start2 - result.layout.ib_start) * arch.shram.bank_size_bytes"
        " >= 2 * ifm_bytes_spec(Block(result.ifm_block.width, result.ifm_block.height, result.ifm_block.depth), ifm_bits))",
    ],
)


# ===== the generator's use of try_block_config (register_command_stream_generator.get_arch_block_config) ==========================
from ethosu.vela import register_command_stream_generator as rg  # noqa: E402
from ethosu.vela.api import (NpuActivationOp, NpuBlockTraversal, NpuConv2DOperation, NpuConvDepthWiseOperation, NpuElementWiseOp,  # noqa: E402
                             NpuElementWiseOperation, NpuPoolingOp, NpuPoolingOperation, NpuResamplingMode)

from contracts.c_generators import ACT, FM, KERNEL as NPU_KERNEL, SHAPE3  # noqa: E402


def _tbc_capture(eng, args, kwargs):
    """try_block_config is verified on its own (above). Here its arguments are captured as a ghost tuple so that the contract can
    state WHICH validation the generator asks for; the result is an arbitrary non-None configuration object."""
    names = ["block_config", "arch", "npu_op_type", "ofm_shape", "ifm_shape", "ifm2_shape", "uses_scalar", "ifm_bits", "is_partkernel",
             "kernel", "lut_banks", "scaled", "ifm_resampling"]
    vals = dict(zip(names, args))
    vals.update(kwargs)
    eng.env["_ghost_tbc"] = VTuple([vals[n] for n in names if n != "arch"])
    return eng.fresh(TOpaque("ArchitectureBlockConfig"), "arch_block_config")


def expected_block_type(npu_op):
    return (NpuBlockType.ConvolutionMxN if isinstance(npu_op, NpuConv2DOperation) else
            NpuBlockType.ConvolutionDepthWise if isinstance(npu_op, NpuConvDepthWiseOperation) else
            (NpuBlockType.ReduceSum if npu_op.sub_op_type == NpuPoolingOp.REDUCE_SUM else NpuBlockType.Pooling)
            if isinstance(npu_op, NpuPoolingOperation) else NpuBlockType.ElementWise)


def fm_scaled(fm):
    return fm.quantization is not None and fm.quantization.scale_f32 is not None


def _op_type(cls, **extra):
    return TStruct(cls, block_config=SHAPE3, ifm_upscale=TEnum(NpuResamplingMode), activation=TOpt(ACT), ifm=FM, ofm=FM, ifm2=TOpt(FM),
                   ifm2_scalar=TOpt(F64), kernel=TOpt(NPU_KERNEL), **extra)


_GHOST_TBC = TTuple(BLOCK, TEnum(NpuBlockType), BLOCK, BLOCK, TOpt(BLOCK), PyBool, PyInt, PyBool, KERNEL, PyInt, PyBool, TEnum(resampling_mode))

contract(
    "ethosu.vela.register_command_stream_generator:get_arch_block_config", props=["C15"],
    variants={
        "conv2d": dict(npu_op=_op_type(NpuConv2DOperation), block_traversal=TEnum(NpuBlockTraversal), arch=TOpaque("arch")),
        "depthwise": dict(npu_op=_op_type(NpuConvDepthWiseOperation), block_traversal=TEnum(NpuBlockTraversal), arch=TOpaque("arch")),
        "pooling": dict(npu_op=_op_type(NpuPoolingOperation, sub_op_type=TEnum(NpuPoolingOp)), block_traversal=TEnum(NpuBlockTraversal), arch=TOpaque("arch")),
        "elementwise": dict(npu_op=_op_type(NpuElementWiseOperation, sub_op_type=TEnum(NpuElementWiseOp)), block_traversal=TEnum(NpuBlockTraversal),
                            arch=TOpaque("arch")),
    },
    externals={"ethosu.vela.architecture_allocator:try_block_config": _tbc_capture},
    ghost_results={"_ghost_tbc": _GHOST_TBC},
    # The block configuration is validated (try_block_config, verified above) for EXACTLY this operation: its own block, shapes,
    # bit depth, traversal, kernel, LUT use and scaling - so a configuration accepted here is valid for what the hardware will run.
    ensures=[
        "_ghost_tbc[0].width == npu_op.block_config.width and _ghost_tbc[0].height == npu_op.block_config.height and _ghost_tbc[0].depth == npu_op.block_config.depth",
        "_ghost_tbc[1] == expected_block_type(npu_op)",
        "_ghost_tbc[2].width == npu_op.ofm.shape.width and _ghost_tbc[2].height == npu_op.ofm.shape.height and _ghost_tbc[2].depth == npu_op.ofm.shape.depth",
        "_ghost_tbc[3].width == npu_op.ifm.shape.width and _ghost_tbc[3].height == npu_op.ifm.shape.height and _ghost_tbc[3].depth == npu_op.ifm.shape.depth",
        # a second tensor input exists iff ifm2 is given and is not a scalar (a scalar 0 or 0.0 is still a scalar)
        "(_ghost_tbc[4] is not None) == (npu_op.ifm2 is not None and npu_op.ifm2_scalar is None)",
        "implies(_ghost_tbc[4] is not None, _ghost_tbc[4].width == npu_op.ifm2.shape.width and _ghost_tbc[4].height == npu_op.ifm2.shape.height"
        " and _ghost_tbc[4].depth == npu_op.ifm2.shape.depth)",
        "_ghost_tbc[5] == (npu_op.ifm2_scalar is not None)",
        "_ghost_tbc[6] == npu_op.ifm.data_type.size_in_bits()",
        "_ghost_tbc[7] == (block_traversal == NpuBlockTraversal.PART_KERNEL_FIRST)",
        # the kernel of the operation (1x1, stride 1 when the operation has none)
        "_ghost_tbc[8].width == (npu_op.kernel.width if npu_op.kernel is not None else 1) and _ghost_tbc[8].height == (npu_op.kernel.height if npu_op.kernel is not None else 1)",
        "_ghost_tbc[8].stride == PointXY(npu_op.kernel.stride_x if npu_op.kernel is not None else 1, npu_op.kernel.stride_y if npu_op.kernel is not None else 1)",
        "_ghost_tbc[8].dilation == PointXY(npu_op.kernel.dilation_x if npu_op.kernel is not None else 1, npu_op.kernel.dilation_y if npu_op.kernel is not None else 1)",
        # two LUT banks are reserved exactly when the activation is a table look-up
        "_ghost_tbc[9] == (2 if (npu_op.activation is not None and npu_op.activation.op_type == NpuActivationOp.TABLE_LOOKUP) else 0)",
        # 'scaled' (40-bit accumulators for 16-bit IFMs) iff every feature map of the operation carries a scale
        "_ghost_tbc[10] == (fm_scaled(npu_op.ifm) and fm_scaled(npu_op.ofm) and (npu_op.ifm2 is None or fm_scaled(npu_op.ifm2)))",
        "_ghost_tbc[11] == rg.resampling_mode_map[npu_op.ifm_upscale]",
    ],
    replay=False,
)


# ===== bounded stand-in (labelled bounded, never counted as proved): find_block_config =================================================
# The block search (nested loops over candidate sizes with float costs) is outside the executor's subset. For every instance of a stated
# grid, and for two call orders (the function must not depend on earlier calls), the block it returns is re-validated by try_block_config
# - which IS proved above - with the same arguments, and the two layouts are compared.
from pyvc import replay as _rp  # noqa: E402


def _find_block_config_grid(tier, seed):
    import itertools
    from ethosu.vela.shape4d import Shape4D
    out = dict(name="find_block_config: every returned block is accepted by (the proved) try_block_config with the same arguments and carries the same layout; "
                    "results do not depend on the order of earlier calls",
               label="bounded",
               bound="6 accelerators x {conv 1x1/3x3, depthwise 3x3, max-pool 2x2, elementwise (tensor / scalar second input)} x 4 OFM shapes x IFM bits {8, 16} "
                     "x lut_banks {0, 2} x scaled {F, T}; each instance evaluated in two call orders (native evaluation of the real code)",
               cases=0, violations=[], known_lines=[])
    bad = []
    shapes = [(16, 16, 16), (48, 37, 17), (1, 64, 8), (7, 7, 130)] if tier == "quick" else [(16, 16, 16), (48, 37, 17), (1, 64, 8), (7, 7, 130), (33, 1, 3), (2, 200, 40)]
    ops = [(NpuBlockType.ConvolutionMxN, Kernel(1, 1), False, False), (NpuBlockType.ConvolutionMxN, Kernel(3, 3), False, False),
           (NpuBlockType.ConvolutionDepthWise, Kernel(3, 3), False, False), (NpuBlockType.Pooling, Kernel(2, 2, 2, 2), False, False),
           (NpuBlockType.ElementWise, Kernel(1, 1), True, False), (NpuBlockType.ElementWise, Kernel(1, 1), True, True)]
    insts = []
    for (h, w, d), (bt, k, has2, scalar), bits, lut, scaled in itertools.product(shapes, ops, (8, 16), (0, 2), (False, True)):
        ofm = Shape4D(1, h, w, d)
        ifm = Shape4D(1, (h - 1) * k.stride.y + k.area_height(), (w - 1) * k.stride.x + k.area_width(), d if bt != NpuBlockType.ConvolutionMxN else 24)
        ifm2 = ofm if (has2 and not scalar) else None
        insts.append((bt, ofm, ifm, ifm2, scalar, bits, k, lut, scaled))

    def layout_of(c):
        lay = c.layout
        return (lay.ib_start, lay.ib_end, lay.ib_start2, lay.ab_start, lay.lut_start)

    for name, arch in ARCHS.items():
        for order in (insts, list(reversed(insts))):
            for (bt, ofm, ifm, ifm2, scalar, bits, k, lut, scaled) in order:
                out["cases"] += 1
                cfg = aa.find_block_config(arch, bt, ofm, ifm, ifm2, scalar, bits, k, lut, scaled, resampling_mode.NONE)
                if cfg is None:
                    continue
                blk = Block(cfg.ofm_block.width, cfg.ofm_block.height, cfg.ofm_block.depth)
                chk = aa.try_block_config(blk, arch, bt, ofm, ifm, ifm2, scalar, bits, cfg.is_partkernel, k, lut, scaled, resampling_mode.NONE)
                msg = None
                if chk is None:
                    msg = "block %r is rejected by try_block_config" % (blk,)
                elif layout_of(chk) != layout_of(cfg):
                    msg = "layout %r differs from the layout try_block_config derives for the same block %r" % (layout_of(cfg), layout_of(chk))
                if msg and len(bad) < 5:
                    bad.append("find_block_config(%s, %s, ofm=%r, ifm_bits=%d, kernel %dx%d, lut_banks=%d, scaled=%s): %s" % (
                        name, bt.name, ofm, bits, k.width, k.height, lut, scaled, msg))
    if bad:
        import json
        import os
        d = os.path.join(_rp.OUT, "replays", "C15")
        os.makedirs(d, exist_ok=True)
        path = os.path.join(d, "bounded_find_block_config.json")
        json.dump(dict(property="C15", obligation="bounded:find_block_config grid", failures=bad), open(path, "w"), indent=1)
        out["violations"].append("VIOLATION property=C15 replay=%s" % path)
    return out


_rp.BOUNDED_HOOKS.setdefault("C15", []).append(_find_block_config_grid)
