"""Contracts for the SHRAM block-configuration allocator (property C15): architecture_allocator.py."""
from ethosu.vela import architecture_allocator as aa
from ethosu.vela.architecture_allocator import ElementwiseUsage, SHRAMLayout
from ethosu.vela.architecture_features import Accelerator, ArchitectureFeatures, Block, create_default_arch

from pyvc.contracts import REGISTRY, contract, implies  # noqa: F401
from pyvc.values import *  # noqa: F401,F403

REGISTRY.declare_struct(SHRAMLayout)
REGISTRY.declare_struct(Block)

ARCHS = {a.name: create_default_arch(a) for a in Accelerator}
# distinct SHRAM configurations of the six accelerators (finite, covered exhaustively)
SHRAMS = {}
for _n, _a in ARCHS.items():
    SHRAMS.setdefault(tuple(_a.shram), []).append(_n)

BLOCK = TStruct(Block, width=TInt(lo=1, hi=65536), height=TInt(lo=1, hi=65536), depth=TInt(lo=1, hi=65536))


# ---- spec (from the SHRAM layout rules of the hardware: partitions in banks, double buffered, bank granules) ----------
def ifm_bytes_spec(blk, ifm_bits):
    """bytes of one IFM block buffer: width x height x (depth bytes rounded up to 8)"""
    return blk.width * blk.height * (((blk.depth * ifm_bits) // 8 + 7) // 8 * 8)


def acc_bytes_spec(blk, acc_bits):
    """bytes of one accumulator buffer: width x height x (depth rounded up to 8) accumulators"""
    return (blk.width * blk.height * ((blk.depth + 7) // 8 * 8) * acc_bits) // 8


contract(
    "ethosu.vela.architecture_allocator:_try_block_config", props=["C15"],
    variants={
        "shram=%s" % "/".join(names): dict(
            shram=TConst(ARCHS[names[0]].shram), ew_usage=TEnum(ElementwiseUsage), ofm_block=BLOCK, ifm_block=BLOCK,
            ifm_bits=TInt(lo=8, hi=32), ifm_granule=TInt(lo=1, hi=64), acc_bits=TInt(lo=16, hi=40), acc_granule=TInt(lo=1, hi=64),
            lut_banks=TInt(lo=0, hi=4))
        for cfg, names in SHRAMS.items()
    },
    requires=["ifm_bits in (8, 16, 32)", "acc_bits in (16, 32, 40)",
              # block volumes of the hardware (block dimensions up to 2**16, buffers far below 2**53 bytes)
              "ofm_block.width * ofm_block.height <= 2**20", "ifm_block.width * ifm_block.height <= 2**20"],
    ensures=[
        # a returned layout is ordered, non-overlapping and inside the bank count
        "implies(result is not None, result.ib_start == shram.reserved_output_banks and result.ib_start <= result.ib_start2"
        " and result.ib_start2 <= result.ib_end and result.ib_end <= result.ab_start and result.ab_start <= result.lut_start"
        " and result.lut_start == shram.total_banks - lut_banks and result.lut_start <= shram.total_banks)",
        # the IFM partition double-buffers the IFM block and is a whole number of granules
        "implies(result is not None, (result.ib_start2 - result.ib_start) * shram.bank_size_bytes >= 2 * ifm_bytes_spec(ifm_block, ifm_bits)"
        " and (result.ib_start2 - result.ib_start) % ifm_granule == 0)",
        # non-elementwise: the accumulator partition double-buffers the OFM block at its granule
        "implies(result is not None and ew_usage == ElementwiseUsage.No,"
        " (result.lut_start - result.ab_start) * shram.bank_size_bytes >= 2 * acc_bytes_spec(ofm_block, acc_bits)"
        " and (result.lut_start - result.ab_start) % acc_granule == 0 and result.ib_end == result.ib_start2)",
        # elementwise with two tensor inputs: a second IFM partition of the same size fits before the accumulators
        "implies(result is not None and ew_usage == ElementwiseUsage.Full, result.ib_start2 + (result.ib_start2 - result.ib_start) <= result.ab_start)",
        "implies(result is not None and ew_usage != ElementwiseUsage.No, result.ib_end == result.ab_start and result.ab_start == result.lut_start)",
    ],
)


# ===== try_block_config: the validation used by both the command-stream generator and the public query ==============
from ethosu.vela.architecture_allocator import ArchitectureBlockConfig  # noqa: E402
from ethosu.vela.ethos_u55_regs.ethos_u55_regs import resampling_mode  # noqa: E402
from ethosu.vela.operation import Kernel, NpuBlockType, PointXY  # noqa: E402

REGISTRY.declare_struct(ArchitectureBlockConfig)
REGISTRY.declare_struct(Kernel)

SHAPE = TStruct(Block, width=TInt(lo=1, hi=65535), height=TInt(lo=1, hi=65535), depth=TInt(lo=1, hi=65535))
KERNEL = TStruct(Kernel, width=TInt(lo=1, hi=65536), height=TInt(lo=1, hi=256),
                 stride=TTuple(TInt(lo=1, hi=3), TInt(lo=1, hi=3), cls=PointXY), dilation=TTuple(TInt(lo=1, hi=2), TInt(lo=1, hi=2), cls=PointXY))


def ublock_ok(block_config, arch):
    """positive multiple of the micro-block and within the maximum block, per axis"""
    return (0 < block_config.height <= arch.ofm_block_max.height and block_config.height % arch.ofm_ublock.height == 0
            and 0 < block_config.width <= arch.ofm_block_max.width and block_config.width % arch.ofm_ublock.width == 0
            and 0 < block_config.depth <= arch.ofm_block_max.depth and block_config.depth % arch.ofm_ublock.depth == 0)


contract(
    "ethosu.vela.architecture_allocator:try_block_config", props=["C15"],
    variants={
        "%s,ifm_bits=%d" % (name, bits): dict(
            block_config=TStruct(Block, width=TInt(lo=-4, hi=70000), height=TInt(lo=-4, hi=70000), depth=TInt(lo=-4, hi=70000)),
            arch=TConst(arch), npu_op_type=TEnum(NpuBlockType), ofm_shape=SHAPE, ifm_shape=SHAPE, ifm2_shape=TOpt(SHAPE),
            uses_scalar=PyBool, ifm_bits=TConst(bits), is_partkernel=PyBool, kernel=KERNEL, lut_banks=TInt(lo=0, hi=2),
            scaled=PyBool, ifm_resampling=TEnum(resampling_mode))
        for name, arch in ARCHS.items() for bits in (8, 16, 32)
    },
    ensures=[
        "implies(result is not None, ublock_ok(block_config, arch))",
        "implies(result is not None, result.ofm_block == block_config and result.is_partkernel == is_partkernel and result.bank_size == arch.shram_bank_size)",
        # the layout is ordered, non-overlapping and inside the accelerator's bank count (facts carried over from _try_block_config)
        "implies(result is not None, result.layout.ib_start == arch.shram.reserved_output_banks and result.layout.ib_start <= result.layout.ib_start2"
        " and result.layout.ib_start2 <= result.layout.ib_end and result.layout.ib_end <= result.layout.ab_start"
        " and result.layout.ab_start <= result.layout.lut_start and result.layout.lut_start <= arch.shram.total_banks)",
        # a look-up table never shares banks with the other partitions
        "implies(result is not None, result.layout.lut_start == arch.shram.total_banks - max(lut_banks, arch.shram.reserved_end_banks))",
        # the accumulator partition double-buffers the (Conv1D-optimised) OFM block
        "implies(result is not None and npu_op_type != NpuBlockType.ElementWise,"
        " (result.layout.lut_start - result.layout.ab_start) * arch.shram.bank_size_bytes >= 2 * acc_bytes_spec("
        "   aa.fit_block_for_ofm(arch, ofm_shape, kernel, block_config), 40 if (ifm_bits == 16 and npu_op_type != NpuBlockType.Pooling and scaled) else 32))",
        # the IFM partition double-buffers the IFM block needed for one OFM block
        "implies(result is not None, (result.layout.ib_start2 - result.layout.ib_start) * arch.shram.bank_size_bytes"
        " >= 2 * ifm_bytes_spec(Block(result.ifm_block.width, result.ifm_block.height, result.ifm_block.depth), ifm_bits))",
    ],
)


# ===== the generator's use of try_block_config (register_command_stream_generator.get_arch_block_config) ==========================
from ethosu.vela import register_command_stream_generator as rg  # noqa: E402
from ethosu.vela.api import (NpuActivationOp, NpuBlockTraversal, NpuConv2DOperation, NpuConvDepthWiseOperation, NpuElementWiseOp,  # noqa: E402
                             NpuElementWiseOperation, NpuPoolingOp, NpuPoolingOperation, NpuResamplingMode)

from contracts.c_generators import ACT, FM, KERNEL as NPU_KERNEL, SHAPE3  # noqa: E402


def _tbc_capture(eng, args, kwargs):
    """try_block_config is verified on its own (above). Here its arguments are captured as a ghost tuple so that the contract can
    state WHICH validation the generator asks for; the result is an arbitrary non-None configuration object."""
    names = ["block_config", "arch", "npu_op_type", "ofm_shape", "ifm_shape", "ifm2_shape", "uses_scalar", "ifm_bits", "is_partkernel",
             "kernel", "lut_banks", "scaled", "ifm_resampling"]
    vals = dict(zip(names, args))
    vals.update(kwargs)
    eng.env["_ghost_tbc"] = VTuple([vals[n] for n in names if n != "arch"])
    return eng.fresh(TOpaque("ArchitectureBlockConfig"), "arch_block_config")


def expected_block_type(npu_op):
    return (NpuBlockType.ConvolutionMxN if isinstance(npu_op, NpuConv2DOperation) else
            NpuBlockType.ConvolutionDepthWise if isinstance(npu_op, NpuConvDepthWiseOperation) else
            (NpuBlockType.ReduceSum if npu_op.sub_op_type == NpuPoolingOp.REDUCE_SUM else NpuBlockType.Pooling)
            if isinstance(npu_op, NpuPoolingOperation) else NpuBlockType.ElementWise)


def fm_scaled(fm):
    return fm.quantization is not None and fm.quantization.scale_f32 is not None


def _op_type(cls, **extra):
    return TStruct(cls, block_config=SHAPE3, ifm_upscale=TEnum(NpuResamplingMode), activation=TOpt(ACT), ifm=FM, ofm=FM, ifm2=TOpt(FM),
                   ifm2_scalar=TOpt(F64), kernel=TOpt(NPU_KERNEL), **extra)


_GHOST_TBC = TTuple(BLOCK, TEnum(NpuBlockType), BLOCK, BLOCK, TOpt(BLOCK), PyBool, PyInt, PyBool, KERNEL, PyInt, PyBool, TEnum(resampling_mode))

contract(
    "ethosu.vela.register_command_stream_generator:get_arch_block_config", props=["C15"],
    variants={
        "conv2d": dict(npu_op=_op_type(NpuConv2DOperation), block_traversal=TEnum(NpuBlockTraversal), arch=TOpaque("arch")),
        "depthwise": dict(npu_op=_op_type(NpuConvDepthWiseOperation), block_traversal=TEnum(NpuBlockTraversal), arch=TOpaque("arch")),
        "pooling": dict(npu_op=_op_type(NpuPoolingOperation, sub_op_type=TEnum(NpuPoolingOp)), block_traversal=TEnum(NpuBlockTraversal), arch=TOpaque("arch")),
        "elementwise": dict(npu_op=_op_type(NpuElementWiseOperation, sub_op_type=TEnum(NpuElementWiseOp)), block_traversal=TEnum(NpuBlockTraversal),
                            arch=TOpaque("arch")),
    },
    externals={"ethosu.vela.architecture_allocator:try_block_config": _tbc_capture},
    ghost_results={"_ghost_tbc": _GHOST_TBC},
    # The block configuration is validated (try_block_config, verified above) for EXACTLY this operation: its own block, shapes,
    # bit depth, traversal, kernel, LUT use and scaling - so a configuration accepted here is valid for what the hardware will run.
    ensures=[
        "_ghost_tbc[0].width == npu_op.block_config.width and _ghost_tbc[0].height == npu_op.block_config.height and _ghost_tbc[0].depth == npu_op.block_config.depth",
        "_ghost_tbc[1] == expected_block_type(npu_op)",
        "_ghost_tbc[2].width == npu_op.ofm.shape.width and _ghost_tbc[2].height == npu_op.ofm.shape.height and _ghost_tbc[2].depth == npu_op.ofm.shape.depth",
        "_ghost_tbc[3].width == npu_op.ifm.shape.width and _ghost_tbc[3].height == npu_op.ifm.shape.height and _ghost_tbc[3].depth == npu_op.ifm.shape.depth",
        # a second tensor input exists iff ifm2 is given and is not a scalar (a scalar 0 or 0.0 is still a scalar)
        "(_ghost_tbc[4] is not None) == (npu_op.ifm2 is not None and npu_op.ifm2_scalar is None)",
        "implies(_ghost_tbc[4] is not None, _ghost_tbc[4].width == npu_op.ifm2.shape.width and _ghost_tbc[4].height == npu_op.ifm2.shape.height"
        " and _ghost_tbc[4].depth == npu_op.ifm2.shape.depth)",
        "_ghost_tbc[5] == (npu_op.ifm2_scalar is not None)",
        "_ghost_tbc[6] == npu_op.ifm.data_type.size_in_bits()",
        "_ghost_tbc[7] == (block_traversal == NpuBlockTraversal.PART_KERNEL_FIRST)",
        # the kernel of the operation (1x1, stride 1 when the operation has none)
        "_ghost_tbc[8].width == (npu_op.kernel.width if npu_op.kernel is not None else 1) and _ghost_tbc[8].height == (npu_op.kernel.height if npu_op.kernel is not None else 1)",
        "_ghost_tbc[8].stride == PointXY(npu_op.kernel.stride_x if npu_op.kernel is not None else 1, npu_op.kernel.stride_y if npu_op.kernel is not None else 1)",
        "_ghost_tbc[8].dilation == PointXY(npu_op.kernel.dilation_x if npu_op.kernel is not None else 1, npu_op.kernel.dilation_y if npu_op.kernel is not None else 1)",
        # two LUT banks are reserved exactly when the activation is a table look-up
        "_ghost_tbc[9] == (2 if (npu_op.activation is not None and npu_op.activation.op_type == NpuActivationOp.TABLE_LOOKUP) else 0)",
        # 'scaled' (40-bit accumulators for 16-bit IFMs) iff every feature map of the operation carries a scale
        "_ghost_tbc[10] == (fm_scaled(npu_op.ifm) and fm_scaled(npu_op.ofm) and (npu_op.ifm2 is None or fm_scaled(npu_op.ifm2)))",
        "_ghost_tbc[11] == rg.resampling_mode_map[npu_op.ifm_upscale]",
    ],
    replay=False,
)
