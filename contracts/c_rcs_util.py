"""Contracts for register_command_stream_util.py: alignment checks (C06), address computation and memory-access footprints (C02),
overlap tests / wait dependencies / block dependencies (C04)."""
from ethosu.vela import register_command_stream_util as ru
from ethosu.vela.api import NpuAddressRange, NpuDataType, NpuFeatureMap, NpuLayout, NpuShape3D, NpuTileBox
from ethosu.vela.errors import ByteAlignmentError, ByteSizeError

from pyvc.contracts import REGISTRY, contract, implies  # noqa: F401
from pyvc.values import *  # noqa: F401,F403

contract(
    "ethosu.vela.register_command_stream_util:check_alignment", props=["C06"],
    types=dict(payload=TInt(lo=0), required_alignment=TInt(lo=1, hi=1024)),
    raises=[(ByteAlignmentError, "payload % required_alignment != 0")],
)
contract(
    "ethosu.vela.register_command_stream_util:check_size", props=["C06"],
    types=dict(payload=TInt(lo=0), required_multiple=TInt(lo=1, hi=1024), value_type=TStr()),
    raises=[(ByteSizeError, "payload % required_multiple != 0")],
)
contract(
    "ethosu.vela.register_command_stream_util:check_stride", props=["C06"],
    types=dict(stride=TInt(lo=0), required_multiple=TInt(lo=1, hi=1024)),
    raises=[(ByteSizeError, "stride % required_multiple != 0")],
)
contract(
    "ethosu.vela.register_command_stream_util:check_length", props=["C06"],
    types=dict(length=TInt(lo=0), required_multiple=TInt(lo=1, hi=1024)),
    raises=[(ByteSizeError, "length % required_multiple != 0")],
)

DIM = TInt(lo=1, hi=65536)
SHAPE3 = TTuple(DIM, DIM, DIM, cls=NpuShape3D)
ADDR = TInt(lo=0, hi=2**40 - 1)
TILES = TTuple(TInt(lo=0, hi=65536), TInt(lo=0, hi=65536), TInt(lo=0, hi=65536), TTuple(ADDR, ADDR, ADDR, ADDR), cls=NpuTileBox)
STRIDE = TInt(lo=0, hi=2**40 - 1)
FM = TStruct(NpuFeatureMap, data_type=TEnum(NpuDataType), region=TInt(lo=0, hi=7), shape=SHAPE3, tiles=TILES,
             layout=TEnum(NpuLayout), strides=TOpt(TTuple(STRIDE, STRIDE, STRIDE, cls=NpuShape3D)))


def default_strides(fm):
    """Ethos-U default strides: NHWC packed; NHCWB16 in 16-channel bricks. NpuShape3D(height=stride_y, width=stride_x, depth=stride_c)"""
    es = fm.data_type.size_in_bytes()
    return (NpuShape3D(height=fm.shape.width * fm.shape.depth * es, width=fm.shape.depth * es, depth=es) if fm.layout == NpuLayout.NHWC else
            NpuShape3D(height=es * fm.shape.width * ((fm.shape.depth + 15) // 16 * 16), width=16 * es, depth=16 * es * fm.shape.width))


contract(
    "ethosu.vela.register_command_stream_util:get_strides", props=["C06", "C02"],
    types=dict(fm=FM),
    ensures=["implies(fm.strides is not None, result == fm.strides)", "implies(fm.strides is None, result == default_strides(fm))",
             "result.depth >= 0 and result.height >= 0 and result.width >= 0",
             # default strides satisfy the hardware alignment rules and make addresses monotone in c
             "implies(fm.strides is None and fm.layout == NpuLayout.NHCWB16, result.depth % 16 == 0 and result.height % 16 == 0"
             " and result.depth >= 16 * fm.data_type.size_in_bytes())",
             "implies(fm.strides is None and fm.layout == NpuLayout.NHWC, result.height % fm.data_type.size_in_bytes() == 0"
             " and result.width % fm.data_type.size_in_bytes() == 0)"],
    returns=TTuple(PyInt, PyInt, PyInt, cls=NpuShape3D),
)

contract(
    "ethosu.vela.register_command_stream_util:check_strides", props=["C06"],
    types=dict(fm=FM, strides=TTuple(STRIDE, STRIDE, STRIDE, cls=NpuShape3D)),
    raises=[(ByteSizeError, "(strides.depth % 16 != 0 or strides.height % 16 != 0) if fm.layout == NpuLayout.NHCWB16 else"
                            " (strides.height % fm.data_type.size_in_bytes() != 0 or strides.width % fm.data_type.size_in_bytes() != 0)")],
)


# ===== overlap tests (C04) ==============================================================================================
RANGE = TTuple(TInt(lo=0, hi=8), TInt(lo=0, hi=2**40 - 1), TInt(lo=0, hi=2**40), cls=NpuAddressRange)


def bytes_overlap(r1, r2):
    """two address ranges share at least one byte (same region, non-empty intersection)"""
    return r1.region == r2.region and max(r1.address, r2.address) < min(r1.address + r1.length, r2.address + r2.length)


contract(
    "ethosu.vela.register_command_stream_util:ranges_overlap", props=["C04"],
    types=dict(range1=RANGE, range2=RANGE),
    ensures=["implies(range1.length > 0 and range2.length > 0, result == bytes_overlap(range1, range2))",
             "implies(result, range1.region == range2.region)"],
    returns=PyBool,
)

contract(
    "ethosu.vela.register_command_stream_util:range_lists_overlap", props=["C04"],
    types=dict(list1=TList(TOpt(RANGE)), list2=TList(TOpt(RANGE))),
    requires=["all(r is None or r.length > 0 for r in list1)", "all(r is None or r.length > 0 for r in list2)"],
    loops={
        0: dict(invariants=["all(list1[i] is None or all(list2[j] is None or not bytes_overlap(list1[i], list2[j]) for j in range(len(list2))) for i in range(_it0))"]),
        1: dict(invariants=["all(list2[j] is None or not bytes_overlap(range1, list2[j]) for j in range(_it1))"]),
    },
    # exact: True iff some used range of list1 shares a byte with some used range of list2 (unused tiles are None and skipped)
    ensures=["result == any(list1[i] is not None and any(list2[j] is not None and bytes_overlap(list1[i], list2[j]) for j in range(len(list2))) for i in range(len(list1)))"],
    returns=PyBool,
)
