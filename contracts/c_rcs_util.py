"""Contracts for register_command_stream_util.py: alignment checks (C06), address computation and memory-access footprints (C02),
overlap tests / wait dependencies / block dependencies (C04)."""
from ethosu.vela import register_command_stream_util as ru
from ethosu.vela.api import NpuAddressRange, NpuDataType, NpuFeatureMap, NpuLayout, NpuShape3D, NpuTileBox
from ethosu.vela.errors import ByteAlignmentError, ByteSizeError

from pyvc.contracts import REGISTRY, contract, implies  # noqa: F401
from pyvc.values import *  # noqa: F401,F403

contract(
    "ethosu.vela.register_command_stream_util:check_alignment", props=["C06"],
    types=dict(payload=TInt(lo=0), required_alignment=TInt(lo=1, hi=1024)),
    raises=[(ByteAlignmentError, "payload % required_alignment != 0")],
)
contract(
    "ethosu.vela.register_command_stream_util:check_size", props=["C06"],
    types=dict(payload=TInt(lo=0), required_multiple=TInt(lo=1, hi=1024), value_type=TStr()),
    raises=[(ByteSizeError, "payload % required_multiple != 0")],
)
contract(
    "ethosu.vela.register_command_stream_util:check_stride", props=["C06"],
    types=dict(stride=TInt(lo=0), required_multiple=TInt(lo=1, hi=1024)),
    raises=[(ByteSizeError, "stride % required_multiple != 0")],
)
contract(
    "ethosu.vela.register_command_stream_util:check_length", props=["C06"],
    types=dict(length=TInt(lo=0), required_multiple=TInt(lo=1, hi=1024)),
    raises=[(ByteSizeError, "length % required_multiple != 0")],
)

DIM = TInt(lo=1, hi=65536)
SHAPE3 = TTuple(DIM, DIM, DIM, cls=NpuShape3D)
ADDR = TInt(lo=0, hi=2**40 - 1)
TILES = TTuple(TInt(lo=0, hi=65536), TInt(lo=0, hi=65536), TInt(lo=0, hi=65536), TTuple(ADDR, ADDR, ADDR, ADDR), cls=NpuTileBox)
STRIDE = TInt(lo=0, hi=2**40 - 1)
FM = TStruct(NpuFeatureMap, data_type=TEnum(NpuDataType), region=TInt(lo=0, hi=7), shape=SHAPE3, tiles=TILES,
             layout=TEnum(NpuLayout), strides=TOpt(TTuple(STRIDE, STRIDE, STRIDE, cls=NpuShape3D)))


def default_strides(fm):
    """Ethos-U default strides: NHWC packed; NHCWB16 in 16-channel bricks. NpuShape3D(height=stride_y, width=stride_x, depth=stride_c)"""
    es = fm.data_type.size_in_bytes()
    return (NpuShape3D(height=fm.shape.width * fm.shape.depth * es, width=fm.shape.depth * es, depth=es) if fm.layout == NpuLayout.NHWC else
            NpuShape3D(height=es * fm.shape.width * ((fm.shape.depth + 15) // 16 * 16), width=16 * es, depth=16 * es * fm.shape.width))


contract(
    "ethosu.vela.register_command_stream_util:get_strides", props=["C06", "C02"],
    types=dict(fm=FM),
    ensures=["implies(fm.strides is not None, result == fm.strides)", "implies(fm.strides is None, result == default_strides(fm))",
             "result.depth >= 0 and result.height >= 0 and result.width >= 0",
             # default strides satisfy the hardware alignment rules and make addresses monotone in c
             "implies(fm.strides is None and fm.layout == NpuLayout.NHCWB16, result.depth % 16 == 0 and result.height % 16 == 0"
             " and result.depth >= 16 * fm.data_type.size_in_bytes())",
             "implies(fm.strides is None and fm.layout == NpuLayout.NHWC, result.height % fm.data_type.size_in_bytes() == 0"
             " and result.width % fm.data_type.size_in_bytes() == 0)"],
    returns=TTuple(PyInt, PyInt, PyInt, cls=NpuShape3D),
)

contract(
    "ethosu.vela.register_command_stream_util:check_strides", props=["C06"],
    types=dict(fm=FM, strides=TTuple(STRIDE, STRIDE, STRIDE, cls=NpuShape3D)),
    raises=[(ByteSizeError, "(strides.depth % 16 != 0 or strides.height % 16 != 0) if fm.layout == NpuLayout.NHCWB16 else"
                            " (strides.height % fm.data_type.size_in_bytes() != 0 or strides.width % fm.data_type.size_in_bytes() != 0)")],
)


# ===== overlap tests (C04) ==============================================================================================
RANGE = TTuple(TInt(lo=0, hi=8), TInt(lo=0, hi=2**40 - 1), TInt(lo=0, hi=2**40), cls=NpuAddressRange)


def bytes_overlap(r1, r2):
    """two address ranges share at least one byte (same region, non-empty intersection)"""
    return r1.region == r2.region and max(r1.address, r2.address) < min(r1.address + r1.length, r2.address + r2.length)


contract(
    "ethosu.vela.register_command_stream_util:ranges_overlap", props=["C04"],
    types=dict(range1=RANGE, range2=RANGE),
    ensures=["implies(range1.length > 0 and range2.length > 0, result == bytes_overlap(range1, range2))",
             "implies(result, range1.region == range2.region)"],
    returns=PyBool,
)

contract(
    "ethosu.vela.register_command_stream_util:range_lists_overlap", props=["C04"],
    types=dict(list1=TList(TOpt(RANGE)), list2=TList(TOpt(RANGE))),
    requires=["all(r is None or r.length > 0 for r in list1)", "all(r is None or r.length > 0 for r in list2)"],
    loops={
        0: dict(invariants=["all(list1[i] is None or all(list2[j] is None or not bytes_overlap(list1[i], list2[j]) for j in range(len(list2))) for i in range(_it0))"]),
        1: dict(invariants=["all(list2[j] is None or not bytes_overlap(range1, list2[j]) for j in range(_it1))"]),
    },
    # exact: True iff some used range of list1 shares a byte with some used range of list2 (unused tiles are None and skipped)
    ensures=["result == any(list1[i] is not None and any(list2[j] is not None and bytes_overlap(list1[i], list2[j]) for j in range(len(list2))) for i in range(len(list1)))"],
    returns=PyBool,
)


# ===== block-job geometry for BLOCKDEP (C04) ============================================================================
from ethosu.vela.api import NpuPadding  # noqa: E402
from ethosu.vela.architecture_features import Accelerator, Block, Rect, create_default_arch  # noqa: E402
from ethosu.vela.operation import Kernel, PointXY, PointXYZ  # noqa: E402

REGISTRY.declare_struct(Rect)
COORD = TInt(lo=0, hi=65535)
RECT = TStruct(Rect, x=COORD, y=COORD, z=COORD, x2=COORD, y2=COORD, z2=COORD)
BLOCK = TStruct(Block, width=TInt(lo=1, hi=65536), height=TInt(lo=1, hi=65536), depth=TInt(lo=1, hi=65536))
KERNEL = TStruct(Kernel, width=TInt(lo=1, hi=64), height=TInt(lo=1, hi=64),
                 stride=TTuple(TInt(lo=1, hi=3), TInt(lo=1, hi=3), cls=PointXY), dilation=TTuple(TInt(lo=1, hi=2), TInt(lo=1, hi=2), cls=PointXY))
PADDING = TTuple(TInt(lo=0, hi=127), TInt(lo=0, hi=127), TInt(lo=0, hi=128), TInt(lo=0, hi=128), cls=NpuPadding)


def nblocks(extent, blk):
    return (extent + blk - 1) // blk


def Wb(area, block):
    """number of blocks across the width of the area"""
    return nblocks(area.x2 - area.x + 1, block.width)


def Db(area, block):
    return nblocks(area.z2 - area.z + 1, block.depth)


contract(
    "ethosu.vela.register_command_stream_util:get_offset_block_coords", props=["C04"],
    types=dict(area=RECT, block=BLOCK, offset=TInt(lo=-8, hi=2**31),
               xb=PyInt, yb=PyInt, zb=PyInt),   # ghosts: block indices per axis
    requires=["area.x <= area.x2 and area.y <= area.y2 and area.z <= area.z2"],
    ensures=[
        # None exactly when the (normalised) index is past the last block
        "(result is None) == ((offset if offset >= 0 else offset + nblocks(area.x2 - area.x + 1, block.width) * nblocks(area.y2 - area.y + 1, block.height)"
        " * nblocks(area.z2 - area.z + 1, block.depth)) >= nblocks(area.x2 - area.x + 1, block.width) * nblocks(area.y2 - area.y + 1, block.height)"
        " * nblocks(area.z2 - area.z + 1, block.depth))",
        # lemmas for the numbering clause: uniqueness of quotient / remainder, stated on the terms the code computes
        "lemma: implies(0 <= zb < Db(area, block) and 0 <= xb < Wb(area, block) and 0 <= yb and offset == (yb * Wb(area, block) + xb) * Db(area, block) + zb,"
        " offset % Db(area, block) == zb and offset // Db(area, block) == yb * Wb(area, block) + xb)",
        "lemma: implies(0 <= xb < Wb(area, block) and 0 <= yb, (yb * Wb(area, block) + xb) % Wb(area, block) == xb)",
        "lemma: implies(0 <= zb < Db(area, block) and 0 <= xb < Wb(area, block) and 0 <= yb, 0 <= xb * Db(area, block) + zb < Db(area, block) * Wb(area, block))",
        "lemma: implies(0 <= zb < Db(area, block) and 0 <= xb < Wb(area, block) and 0 <= yb and offset == (yb * Wb(area, block) + xb) * Db(area, block) + zb,"
        " offset == yb * (Db(area, block) * Wb(area, block)) + (xb * Db(area, block) + zb))",
        "lemma: implies(0 <= zb < Db(area, block) and 0 <= xb < Wb(area, block) and 0 <= yb and offset == (yb * Wb(area, block) + xb) * Db(area, block) + zb,"
        " offset // (Db(area, block) * Wb(area, block)) == yb)",
        # blocks are numbered depth-fastest, then width, then height: index == (yb * W + xb) * D + zb
        "implies(result is not None and offset >= 0 and 0 <= zb < nblocks(area.z2 - area.z + 1, block.depth) and 0 <= xb < nblocks(area.x2 - area.x + 1, block.width)"
        " and 0 <= yb and offset == (yb * nblocks(area.x2 - area.x + 1, block.width) + xb) * nblocks(area.z2 - area.z + 1, block.depth) + zb,"
        " result == PointXYZ(area.x + xb * block.width, area.y + yb * block.height, area.z + zb * block.depth))",
        # lemmas: the last block still starts inside the extent, per axis
        "lemma: (Wb(area, block) - 1) * block.width <= area.x2 - area.x and (Db(area, block) - 1) * block.depth <= area.z2 - area.z",
        "lemma: implies(result is not None and offset >= 0, 0 <= (offset // Db(area, block)) % Wb(area, block) <= Wb(area, block) - 1"
        " and 0 <= offset % Db(area, block) <= Db(area, block) - 1)",
        "lemma: implies(result is not None and offset >= 0, block.width * ((offset // Db(area, block)) % Wb(area, block)) <= (Wb(area, block) - 1) * block.width"
        " and block.depth * (offset % Db(area, block)) <= (Db(area, block) - 1) * block.depth)",
        # the block starts inside the area
        "implies(result is not None and offset >= 0, area.x <= result.x <= area.x2 and area.y <= result.y and area.z <= result.z <= area.z2)",
    ],
    returns=TOpt(TTuple(PyInt, PyInt, PyInt, cls=PointXYZ)),
)

ARCHS = {a.name: create_default_arch(a) for a in Accelerator}
# distinct (ifm_ublock, ofm_block_max) pairs of the six accelerators
_UB = {}
for _n, _a in ARCHS.items():
    _UB.setdefault((_a.ifm_ublock.width, _a.ifm_ublock.height, _a.ofm_block_max.width, _a.ofm_block_max.height), []).append(_n)

contract(
    "ethosu.vela.register_command_stream_util:get_prev_job_output_volume", props=["C04"],
    types=dict(ofm=RECT, ofm_block=BLOCK, block_offset=TInt(lo=0, hi=3)),
    inline=["ethosu.vela.register_command_stream_util:get_offset_block_coords"],
    requires=["ofm.x <= ofm.x2 and ofm.y <= ofm.y2 and ofm.z <= ofm.z2"],
    ensures=[
        # the volume is exactly one OFM block (start + block dimensions) and counts as one job
        "implies(result is not None, result[1] == PointXYZ(result[0].x + ofm_block.width, result[0].y + ofm_block.height, result[0].z + ofm_block.depth) and result[2] == 1)",
        "implies(result is not None, result[0] == ru.get_offset_block_coords(ofm, ofm_block, -1 - block_offset))",
        "(result is None) == (ru.get_offset_block_coords(ofm, ofm_block, -1 - block_offset) is None)",
    ],
)

contract(
    "ethosu.vela.register_command_stream_util:get_first_job_input_volume", props=["C04"],
    variants={"/".join(names): dict(arch=TConst(ARCHS[names[0]]), ifm=RECT, ofm=RECT, ifm_block_depth=TInt(lo=1, hi=65536), ofm_block=BLOCK,
                                      kernel=KERNEL, padding=PADDING, block_offset=TInt(lo=0, hi=3)) for names in _UB.values()},
    inline=["ethosu.vela.register_command_stream_util:get_offset_block_coords"],
    requires=["ifm.x <= ifm.x2 and ifm.y <= ifm.y2 and ifm.z <= ifm.z2", "ofm.x <= ofm.x2 and ofm.y <= ofm.y2 and ofm.z <= ofm.z2",
              # kernels taller / wider than the maximum block are decomposed into sub-kernels by the hardware (outside this lemma)
              "(kernel.height - 1) * kernel.dilation.y + 1 <= arch.ofm_block_max.height", "(kernel.width - 1) * kernel.dilation.x + 1 <= arch.ofm_block_max.width"],
    ensures=[
        # the returned volume CONTAINS the receptive field of the OFM block the job computes:
        #   rows  [max(0, oy * stride_y - pad_top),  oy * stride_y - pad_top  + (bh - 1) * stride_y + dilated_kernel_h)
        #   cols  [max(0, ox * stride_x - pad_left), ox * stride_x - pad_left + (bw - 1) * stride_x + dilated_kernel_w)
        # where (ox, oy) is the block's origin = get_offset_block_coords(ofm, ofm_block, block_offset // depth_blocks)
        "implies(result is not None, result[0].y == max(0, ru.get_offset_block_coords(ofm, ofm_block, block_offset // nblocks(ifm.z2 - ifm.z + 1, ifm_block_depth)).y * kernel.stride.y - padding.top))",
        "implies(result is not None, result[0].x == max(0, ru.get_offset_block_coords(ofm, ofm_block, block_offset // nblocks(ifm.z2 - ifm.z + 1, ifm_block_depth)).x * kernel.stride.x - padding.left))",
        "implies(result is not None, result[1].y >= ru.get_offset_block_coords(ofm, ofm_block, block_offset // nblocks(ifm.z2 - ifm.z + 1, ifm_block_depth)).y * kernel.stride.y - padding.top"
        " + (ofm_block.height - 1) * kernel.stride.y + (kernel.height - 1) * kernel.dilation.y + 1)",
        "implies(result is not None, result[1].x >= ru.get_offset_block_coords(ofm, ofm_block, block_offset // nblocks(ifm.z2 - ifm.z + 1, ifm_block_depth)).x * kernel.stride.x - padding.left"
        " + (ofm_block.width - 1) * kernel.stride.x + (kernel.width - 1) * kernel.dilation.x + 1)",
        "implies(result is not None, result[0].z == ifm.z + (block_offset % nblocks(ifm.z2 - ifm.z + 1, ifm_block_depth)) * ifm_block_depth and result[1].z == result[0].z + ifm_block_depth)",
        "(result is None) == (ru.get_offset_block_coords(ofm, ofm_block, block_offset // nblocks(ifm.z2 - ifm.z + 1, ifm_block_depth)) is None)",
        "implies(result is not None, result[2] == 1)",      # one job per IFM block
    ],
)


# ===== DMA_WAIT / KERNEL_WAIT computation (C04): get_wait_dependency ====================================================================
from ethosu.vela.api import NpuBlockOperation, NpuDmaOperation, NpuOperation  # noqa: E402

from pyvc.spec import Uninterp  # noqa: E402

from contracts.c_mem_access import MAS  # noqa: E402

OPREF = TObj(NpuOperation)
REGISTRY.declare_class(NpuOperation)
REGISTRY.declare_class(NpuDmaOperation)
REGISTRY.declare_class(NpuBlockOperation)
# conflicts(a, b): that the conflict test itself is exact is proved on RangeSet / range_lists_overlap above; here it is a relation
conflicts = Uninterp("conflicts", PyBool, native=lambda a, b: a.conflicts(b))


class _ArchQ:
    pass


ARCH_Q = TStruct(_ArchQ, max_outstanding_dma=TInt(lo=1, hi=2), max_outstanding_kernels=TInt(lo=1, hi=3))


def _wait_clauses(own, other, own_max, ri):
    """own / other: names of the operation's own queue and of the other queue; ri: index of the wait count in the result."""
    acc = "memory_accesses.get"
    return [
        "result[%d] == -1" % (1 - ri),
        # no wait <=> no operation still outstanding in the other queue conflicts with this one
        "(result[%d] == -1) == all(not conflicts(%s(old(%s)[j]), %s(npu_op)) for j in range(old(len(%s))))" % (ri, acc, other, acc, other),
        # the wait count w names the NEWEST conflicting operation and leaves exactly the w operations issued after it outstanding
        "implies(result[%d] >= 0, result[%d] < old(len(%s)) and conflicts(%s(old(%s)[old(len(%s)) - 1 - result[%d]]), %s(npu_op)))"
        % (ri, ri, other, acc, other, other, ri, acc),
        "implies(result[%d] >= 0, len(%s) == result[%d] and all(%s[j] is old(%s)[old(len(%s)) - result[%d] + j] for j in range(result[%d])))"
        % (ri, other, ri, other, other, other, ri, ri),
        "implies(result[%d] == -1, len(%s) == old(len(%s)) and all(%s[j] is old(%s)[j] for j in range(len(%s))))" % (ri, other, other, other, other, other),
        # SAFETY: after the emitted wait nothing that may still be running in the other queue conflicts with this operation
        "all(not conflicts(%s(%s[j]), %s(npu_op)) for j in range(len(%s)))" % (acc, other, acc, other),
        # own queue: the operation is appended; the oldest entry is dropped when the hardware queue depth is exceeded
        "%s[len(%s) - 1] is npu_op" % (own, own),
        "implies(old(len(%s)) + 1 <= %s, len(%s) == old(len(%s)) + 1 and all(%s[j] is old(%s)[j] for j in range(old(len(%s)))))" % (own, own_max, own, own, own, own, own),
        "implies(old(len(%s)) + 1 > %s, len(%s) == old(len(%s)) and all(%s[j] is old(%s)[j + 1] for j in range(old(len(%s)) - 1)))" % (own, own_max, own, own, own, own, own),
    ]


_WAIT_TYPES = dict(arch=ARCH_Q, memory_accesses=TMap(MAS), outstanding_dma_ops=TList(OPREF), outstanding_npu_ops=TList(OPREF))

contract(
    "ethosu.vela.register_command_stream_util:get_wait_dependency", props=["C04"],
    variants={"dma": dict(_WAIT_TYPES, npu_op=TObj(NpuDmaOperation)), "kernel": dict(_WAIT_TYPES, npu_op=TObj(NpuBlockOperation))},
    requires=["memory_accesses.get(npu_op) is not None", "outstanding_dma_ops is not outstanding_npu_ops",
              "all(memory_accesses.get(outstanding_dma_ops[j]) is not None for j in range(len(outstanding_dma_ops)))",
              "all(memory_accesses.get(outstanding_npu_ops[j]) is not None for j in range(len(outstanding_npu_ops)))"],
    variant_ensures={
        "dma": _wait_clauses("outstanding_dma_ops", "outstanding_npu_ops", "arch.max_outstanding_dma", 0),
        "kernel": _wait_clauses("outstanding_npu_ops", "outstanding_dma_ops", "arch.max_outstanding_kernels", 1),
    },
    externals={"ethosu.vela.range_set:MemoryAccessSet.conflicts": conflicts.model()},
    loops={
        0: dict(invariants=[
            "kern_wait == -1 and dma_wait == -1", "waits == _it0 - 1",
            # the other queue is still as on entry
            "implies(isinstance(npu_op, NpuDmaOperation), len(outstanding_ops) == old(len(outstanding_npu_ops))"
            " and all(outstanding_ops[j] is old(outstanding_npu_ops)[j] for j in range(len(outstanding_ops))))",
            "implies(not isinstance(npu_op, NpuDmaOperation), len(outstanding_ops) == old(len(outstanding_dma_ops))"
            " and all(outstanding_ops[j] is old(outstanding_dma_ops)[j] for j in range(len(outstanding_ops))))",
            # every operation newer than the one examined next does not conflict
            "all(not conflicts(memory_accesses.get(outstanding_ops[j]), op_accesses) for j in range(len(outstanding_ops) - _it0, len(outstanding_ops)))",
        ]),
        1: dict(invariants=[
            # i entries have been popped from the front
            "implies(isinstance(npu_op, NpuDmaOperation), len(outstanding_ops) == old(len(outstanding_npu_ops)) - _it1"
            " and all(outstanding_ops[j] is old(outstanding_npu_ops)[j + _it1] for j in range(len(outstanding_ops))))",
            "implies(not isinstance(npu_op, NpuDmaOperation), len(outstanding_ops) == old(len(outstanding_dma_ops)) - _it1"
            " and all(outstanding_ops[j] is old(outstanding_dma_ops)[j + _it1] for j in range(len(outstanding_ops))))",
            "kern_wait == (waits if isinstance(npu_op, NpuDmaOperation) else -1) and dma_wait == (-1 if isinstance(npu_op, NpuDmaOperation) else waits)",
            "waits == _it0 and 0 <= idx and idx == len(old(outstanding_npu_ops) if isinstance(npu_op, NpuDmaOperation) else old(outstanding_dma_ops)) - 1 - waits"
            " if False else waits == _pre1['waits'] and idx == _pre1['idx']",
        ]),
    },
    modifies_lists=["outstanding_dma_ops", "outstanding_npu_ops"],
)


# ===== BLOCKDEP search (C04): the sliding-window loops of calc_blockdep (suffix slice) ===================================================
from ethosu.vela.architecture_features import ArchitectureFeatures  # noqa: E402

from pyvc.slicer import drop_any, drop_before, drop_matching  # noqa: E402

# The block-job geometry (which IFM volume job f reads, which OFM block is produced b-th from the end, whether two volumes share
# bytes) is under contract above (get_first_job_input_volume, get_prev_job_output_volume, coords_intersect / range_lists_overlap).
# Here they are abstract: in_none(f) / out_none(b) = 'there is no such job', isect(f, b) = 'the two volumes overlap'.
in_none = Uninterp("blockdep.in_none", PyBool)
out_none = Uninterp("blockdep.out_none", PyBool)
isect = Uninterp("blockdep.isect", PyBool)


def _in_volume(eng, args, kwargs):
    f = args[-1]
    if eng.branch(eng.truth(in_none.apply(eng, [f]))):
        return NONE
    return VTuple([f, f, VInt(1)])        # (start, end, jobs): the volume is identified by its job number


def _out_volume(eng, args, kwargs):
    b = args[-1]
    if eng.branch(eng.truth(out_none.apply(eng, [b]))):
        return NONE
    return VTuple([b, b, VInt(1)])


def _intersects(eng, args, kwargs):
    return isect.apply(eng, [args[1], args[4]])


_CB = ru.calc_blockdep

contract(
    "ethosu.vela.register_command_stream_util:calc_blockdep", props=["C04"],
    # suffix slice from `blockdep = MAX_BLOCKDEP`: the prefix (forced-zero cases, whole-tensor overlap tests, record unpacking) only
    # establishes the arguments handed to the three geometry functions, which are abstract here
    types=dict(arch=TOpaque("arch"), prev_op=TOpaque("op"), npu_op=TOpaque("op"),
               cur_ifm_rect=TOpaque("rect"), cur_ofm_rect=TOpaque("rect"), cur_ifm_block_depth=PyInt, cur_ofm_block=TOpaque("block"),
               padding=TOpaque("padding"), overlapping_fm=TOpaque("fm"), kernel=TOpaque("kernel"), prev_ofm_block=TOpaque("block"),
               prev_ofm_rect=TOpaque("rect"), gf=TInt(lo=0, hi=2), gb=TInt(lo=0, hi=2)),
    slice_drop=drop_any(drop_before(_CB, "blockdep = ArchitectureFeatures.MAX_BLOCKDEP"),
                        drop_matching(_CB, "kernel = to_kernel(", "prev_ofm_block = Block(", "prev_ofm_rect = shape3d_to_rect(")),
    externals={
        "ethosu.vela.register_command_stream_util:get_first_job_input_volume": _in_volume,
        "ethosu.vela.register_command_stream_util:get_prev_job_output_volume": _out_volume,
        "ethosu.vela.register_command_stream_util:intersects": _intersects,
    },
    ensures=[
        "0 <= result <= ArchitectureFeatures.MAX_BLOCKDEP",
        # CORE: if block job gf of this operation reads bytes that the gb-th block from the end of the previous operation writes,
        # then BLOCKDEP <= gf + gb, i.e. the hardware never has that pair of jobs in flight together
        "implies(all(not in_none(k) for k in range(gf + 1)) and all(not out_none(k) for k in range(gb + 1)) and isect(gf, gb), result <= gf + gb)",
    ],
    replay=False,
    assumptions=["block-job volumes and their overlap test are abstract in this contract (their own contracts are separate obligations)",
                 "hardware model: with BLOCKDEP = d, job f of this operation and the b-th block from the end of the previous one are in flight together only if f + b < d"],
)
