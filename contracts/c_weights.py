"""Contracts for property C08 (encoded weight and scale tensors cover each output channel exactly once): weight_compressor.py."""
from ethosu.vela import weight_compressor as wc

from pyvc.contracts import REGISTRY, contract, implies  # noqa: F401
from pyvc.values import *  # noqa: F401,F403


# ---- spec: the 80-bit scale/bias record of the hardware: [0 (2 bits) | shift (6) | scale (32) | bias (40)], little endian ---------
def le_value(data, start, nbytes):
    """little-endian unsigned value of data[start : start + nbytes]"""
    return sum(data[start + i] * 256 ** i for i in range(nbytes))


contract(
    "ethosu.vela.weight_compressor:encode_bias", props=["C08"],
    types=dict(bias=I64, scale=PyInt, shift=PyInt),
    # the function's own asserts (signed 40-bit bias, unsigned 32-bit scale, unsigned 6-bit shift)
    requires=["-(2**39) <= bias < 2**39", "0 <= scale < 2**32", "0 <= shift < 64"],
    ensures=[
        "len(result) == 10",
        "all(0 <= result[i] <= 255 for i in range(10))",
        # inverse pair: reading the record back gives exactly (bias as 40-bit two's complement, scale, shift)
        "le_value(result, 0, 5) == bias % 2**40",
        "le_value(result, 5, 4) == scale",
        "result[9] == shift",
    ],
    returns=TList(PyInt),
)


# ===== slice / core loops of encode_weight_and_scale_tensor (suffix slice) ==========================================================
from ethosu.vela.architecture_features import Accelerator, Block  # noqa: E402
from ethosu.vela.api import NpuBlockTraversal  # noqa: E402
from ethosu.vela.operation import NpuBlockType  # noqa: E402
from ethosu.vela.tensor import MemType, TensorPurpose  # noqa: E402
from ethosu.vela.weight_compressor import NpuWeightTensor, WeightKey, WeightRange  # noqa: E402

from pyvc.slicer import drop_any, drop_before, drop_matching  # noqa: E402

WR = TObj(WeightRange)
REGISTRY.declare_class(WeightRange, offset=PyInt, scale_bytes=PyInt, weight_offset=PyInt, weight_bytes=PyInt, index=PyInt)
NWT = TObj(NpuWeightTensor)
REGISTRY.declare_class(
    NpuWeightTensor, buffer=TList(PyInt), double_buffer_sizes=TList(PyInt), encoded_ranges=TMap(WR),
    # ghost: g_span[idx] = encoded bytes of depth slice idx (all cores); g_prev_end = end of the most recently recorded range
    g_span=TMap(PyInt), g_prev_end=PyInt, g_slice_start=PyInt, hw_traversal=TEnum(NpuBlockTraversal),
    # fields read by create_weights (address: the allocated address, a property backed by the global TensorAddressMap)
    mem_type=TEnum(MemType), src_tensor=TOpt(TObj(NpuWeightTensor)), address=PyInt,
    purpose=TEnum(TensorPurpose),
)


class _Arr:       # placeholder classes for records of which only a few fields are read in the slice
    pass


class _Tens:
    pass


class _Cfg:
    pass


class _Arch:
    pass


WEIGHT_TENS = TStruct(_Tens, values=TStruct(_Arr, shape=TTuple(TInt(lo=1), TInt(lo=1), TInt(lo=1), TInt(lo=1, hi=2**20))))
BLOCK_CFG = TStruct(_Cfg, ofm_block=TStruct(Block, width=TInt(lo=1), height=TInt(lo=1), depth=TInt(lo=1, hi=2**16)))
def arch_w(nc):
    return TStruct(_Arch, ncores=TConst(nc), accelerator_config=TEnum(Accelerator))
SCALE = TTuple(TInt(lo=0, hi=2**32 - 1), TInt(lo=0, hi=63))


def round16(n):
    return (n + 15) // 16 * 16


def channels_of_core(depth_length, core, ncores):
    """number of output channels depth_offset + core + j * ncores (j >= 0) that lie inside a slice of depth_length channels"""
    return (depth_length - core + ncores - 1) // ncores if depth_length > core else 0


def _prepare_model(eng, args, kwargs):
    """_prepare_scale_and_bias: ASSUMED to return one (scale, shift) pair and one bias per output channel, each within the range
    encode_bias accepts (32-bit scale, 6-bit shift, 40-bit bias)."""
    n = eng.frames[0].env["weight_tens"].fields["values"].fields["shape"].items[3]
    qs = eng.fresh(TList(SCALE), "quantised_scales")
    bs = eng.fresh(TList(TInt(lo=-(2**39), hi=2**39 - 1)), "biases")
    eng.assume(eng.list_len(qs) == n.t)
    eng.assume(eng.list_len(bs) == n.t)
    return VTuple([qs, bs])


def _encode_weights_model(eng, args, kwargs):
    """encode_weights (-> C extension mlw_codec.reorder_encode): ASSUMED to return a byte string whose length is a multiple of 16
    (property C07's claim), and the unencoded size."""
    out = eng.fresh(TList(TInt(lo=0, hi=255)), "encoded_substream")
    eng.assume(eng.list_len(out) % 16 == 0)
    return VTuple([out, eng.fresh(PyInt, "unencoded_size")])


def _opaque_model(eng, args, kwargs):
    return eng.fresh(TOpaque("ndarray"), "core_weights")


_EWST = wc.encode_weight_and_scale_tensor

contract(
    "ethosu.vela.weight_compressor:encode_weight_and_scale_tensor", props=["C08", "C02"],
    # Suffix slice from `encoded_stream = bytearray()`: the prefix (cache lookup, zero-point correction, traversal choice: numpy / object
    # graph code) only establishes the locals declared here as ghost parameters (do_weights, do_scales, npu_tensor, weights, ...);
    # the suffix is verified for an ARBITRARY such state. Dropped in the suffix: tensor bookkeeping after the loops.
    variants={"ncores=%d,do_weights=%s" % (nc, dw): dict(
        arch=arch_w(nc), op=TOpaque("op"), weight_tens=WEIGHT_TENS, scale_tens=TOpaque("scale_tens"), kernel=TOpaque("kernel"),
        block_config=BLOCK_CFG, depth_offsets=TList(PyInt),
        do_weights=TConst(dw), do_scales=TConst(True), npu_tensor=NWT, weights=TOpaque("ndarray"), npu_block_type=TEnum(NpuBlockType),
        ifm_bitdepth=PyInt) for nc in (1, 2) for dw in (True, False)},   # do_scales is True on every path of the prefix
    slice_drop=drop_any(
        drop_before(_EWST, "encoded_stream = bytearray()"),
        drop_matching(_EWST, "scale_tens.element_size_bytes", "npu_tensor.set_all_shapes", "npu_tensor.format", "if not do_weights:",
                      "weights_tensor, scale_tensor"),
    ),
    externals={
        "ethosu.vela.weight_compressor:_prepare_scale_and_bias": _prepare_model,
        "ethosu.vela.weight_compressor:encode_weights": _encode_weights_model,
        "ethosu.vela.weight_compressor:core_deinterleave": _opaque_model,
    },
    requires=[
        # closed, strictly increasing depth ranges inside the OFM depth, ending at it (the two call sites: [0, depth] and
        # propose_weight_buffering's slice boundaries)
        "len(depth_offsets) >= 2", "all(depth_offsets[i] >= 0 for i in range(len(depth_offsets)))",
        "all(depth_offsets[i] < depth_offsets[i + 1] for i in range(len(depth_offsets) - 1))",
        "all(depth_offsets[i] <= weight_tens.values.shape[3] for i in range(len(depth_offsets)))",
        "depth_offsets[len(depth_offsets) - 1] == weight_tens.values.shape[3]",      # 'terminated at end of OFM shape'

        # every slice boundary except the last is a multiple of the core count (derived from the call sites; see DESIGN 3/C08)
        "all((depth_offsets[i + 1] - depth_offsets[i]) % arch.ncores == 0 for i in range(len(depth_offsets) - 2))",
        "npu_tensor.g_prev_end == 0",
    ],
    loops={
        0: dict(invariants=[
            "len(encoded_stream) % 16 == 0", "len(double_buffer_sizes) == 2", "weight_range_index >= 0",
            "0 <= npu_tensor.g_prev_end <= len(encoded_stream)",
            # every finished slice fits the buffer of its parity
            "all(npu_tensor.g_span.get(i) is not None and double_buffer_sizes[i % 2] >= npu_tensor.g_span.get(i) for i in range(_it0))",
        ], modifies_fields=["g_span", "g_prev_end", "g_slice_start", "encoded_ranges", "map$Obj_WeightRange_", "map$PyInt", "offset", "scale_bytes", "weight_offset", "weight_bytes", "index"],
            havoc_types={"encoded_stream": TList(PyInt)}),
        1: dict(invariants=[
            "len(encoded_stream) % 16 == 0", "weight_range_index >= 0", "npu_tensor.g_slice_start <= len(encoded_stream)",
            "0 <= npu_tensor.g_prev_end <= len(encoded_stream)",
        ], modifies_fields=["g_prev_end", "encoded_ranges", "map$Obj_WeightRange_", "offset", "scale_bytes", "weight_offset", "weight_bytes", "index"],
            # weight_range: bound by the loop body (arbitrary if the code reads it after the loop)
            havoc_types={"encoded_stream": TList(PyInt), "weight_range": WR}),
        2: dict(invariants=["len(scale_stream) == 10 * _it2"], havoc_types={"scale_stream": TList(PyInt)}),
    },
    hints={
        # facts about each (core, slice) range at the moment it is recorded (hold for every iteration = for every recorded range)
        "before:npu_tensor.encoded_ranges[key] = weight_range": [
            "weight_range.offset % 16 == 0",
            # in stream order and disjoint from every range recorded before
            "weight_range.offset >= npu_tensor.g_prev_end",
            # exactly one 10-byte record per output channel of this slice that is assigned to this core
            "weight_range.scale_bytes == (10 * channels_of_core(depth_length, core, arch.ncores) if do_scales else 0)",
            "weight_range.weight_offset == (round16(weight_range.scale_bytes) if do_weights else 0)",
            "weight_range.weight_bytes % 16 == 0",
            # the range is exactly the bytes appended for it: [offset, len(encoded_stream))
            "weight_range.offset + (round16(weight_range.scale_bytes) if do_scales else 0) + weight_range.weight_bytes == len(encoded_stream)",
            "len(encoded_stream) % 16 == 0",
        ],
    },
    ghost={
        "after:npu_tensor.encoded_ranges[key] = weight_range": ["npu_tensor.g_prev_end = len(encoded_stream)"],
        "after:double_buffer_sizes[idx % 2] = max(": ["npu_tensor.g_span[idx] = len(encoded_stream) - npu_tensor.g_slice_start"],
        # ghost: where the bytes of the current depth slice begin
        "after:depth_length = depth_offsets[idx + 1] - depth_offset": ["npu_tensor.g_slice_start = len(encoded_stream)"],
    },
    ghost_fields=["g_span", "g_prev_end", "g_slice_start"],
    ensures=[
        "len(npu_tensor.buffer) % 16 == 0",
        # the recorded double-buffer sizes bound every slice that will occupy that buffer
        "len(npu_tensor.double_buffer_sizes) == 2",
        "all(npu_tensor.g_span.get(i) is not None and npu_tensor.double_buffer_sizes[i % 2] >= npu_tensor.g_span.get(i)"
        " for i in range(len(depth_offsets) - 1))",
    ],
    modifies=["buffer", "double_buffer_sizes", "encoded_ranges", "map$Obj_WeightRange_", "g_span", "g_prev_end", "g_slice_start", "offset", "scale_bytes", "weight_offset", "weight_bytes", "index"],
    replay=False, allocates=True,
    assumptions=["_prepare_scale_and_bias returns one (scale, shift) and one bias per output channel, in encode_bias' ranges (assumed)",
                 "encode_weights returns a byte string whose length is a multiple of 16 (C07's claim, assumed)",
                 "suffix slice: the locals established by the dropped prefix are arbitrary"],
)
