"""C10: padding handed to the hardware for one stripe (high_level_command_to_npu_op.create_padding)."""
from ethosu.vela import high_level_command_to_npu_op as hl
from ethosu.vela.api import NpuPadding
from ethosu.vela.high_level_command_stream import Box
from ethosu.vela.operation import NpuBlockType, Padding
from ethosu.vela.shape4d import Shape4D

from pyvc.contracts import REGISTRY, contract, implies  # noqa: F401
from pyvc.values import *  # noqa: F401,F403

PADV = TInt(lo=0, hi=255)
C16 = TInt(lo=0, hi=65536)
COORD4 = TTuple(TInt(lo=0, hi=0), C16, C16, C16)
SHAPE4D = TTuple(TInt(lo=1, hi=1), TInt(lo=1, hi=65536), TInt(lo=1, hi=65536), TInt(lo=1, hi=65536), cls=Shape4D)


class _Stripe:
    pass


class _Ps:
    pass


class _Op:
    pass


class _OpType:
    pass


def stripe_t():
    return TStruct(_Stripe, is_first_h_stripe=PyBool, is_last_h_stripe=PyBool, pad_top=PADV, pad_bottom=PADV,
                   ps=TStruct(_Ps, ifm_shapes=TTuple(SHAPE4D)), ifm_box=TStruct(Box, start_coord=COORD4, end_coord=COORD4))


def op_t(split):
    ro = TTuple(SHAPE4D if split else TConst(None))
    return TStruct(_Op, type=TStruct(_OpType, npu_block_type=TEnum(NpuBlockType)),
                   attrs=TDict(explicit_padding=TTuple(PADV, PADV, PADV, PADV), padding=TEnum(Padding, members=[m for m in Padding if m != Padding.TILE])),
                   read_offsets=ro, read_shapes=TTuple(SHAPE4D if split else TConst(None)))


def win_lo(op, cmd):
    """first IFM column the operator may read: the split read offset, else 0"""
    return op.read_offsets[0].width if op.read_offsets[0] is not None else 0


def win_hi(op, cmd):
    return op.read_shapes[0].width if op.read_offsets[0] is not None else cmd.ps.ifm_shapes[0].width


contract(
    "ethosu.vela.high_level_command_to_npu_op:create_padding", props=["C10"],
    variants={"no_split": dict(cmd=stripe_t(), primary_op=op_t(False), npu_op=TOpaque("npu_op")),
              "split_read": dict(cmd=stripe_t(), primary_op=op_t(True), npu_op=TOpaque("npu_op"))},
    ensures=[
        "implies(primary_op.type.npu_block_type == NpuBlockType.VectorProduct, result == NpuPadding(0, 0, 0, 0))",
        # rows: an operator executed as ONE height stripe keeps its own padding; otherwise each stripe gets the padding its IFM box needs
        # (computed by Box.transform_with_strides_and_skirt, proved exact above)
        "implies(primary_op.type.npu_block_type != NpuBlockType.VectorProduct, result.top == (primary_op.attrs['explicit_padding'][0]"
        " if (cmd.is_first_h_stripe and cmd.is_last_h_stripe) else cmd.pad_top))",
        "implies(primary_op.type.npu_block_type != NpuBlockType.VectorProduct, result.bottom == (primary_op.attrs['explicit_padding'][2]"
        " if (cmd.is_first_h_stripe and cmd.is_last_h_stripe) else cmd.pad_bottom))",
        # columns: left / right padding only where the box touches the left / right edge of the window the operator reads
        "implies(primary_op.type.npu_block_type != NpuBlockType.VectorProduct, result.left == (primary_op.attrs['explicit_padding'][1]"
        " if cmd.ifm_box.start_coord[2] <= win_lo(primary_op, cmd) else 0))",
        "implies(primary_op.type.npu_block_type != NpuBlockType.VectorProduct, result.right == (primary_op.attrs['explicit_padding'][3]"
        " if cmd.ifm_box.end_coord[2] >= win_hi(primary_op, cmd) else 0))",
    ],
    assumptions=["tile padding (Padding.TILE: zero NpuPadding + modified tile addresses) is not covered by a variant"],
    replay=False,
)
