"""Contracts for stripe geometry (property C10): padding/skirt computation, Box.transform_with_strides_and_skirt,
rolling buffer shape."""
from ethosu.vela import graph_optimiser_util as gou
from ethosu.vela import high_level_command_stream as hlcs
from ethosu.vela import tflite_graph_optimiser as tgo
from ethosu.vela.high_level_command_stream import Box
from ethosu.vela.operation import Kernel, NpuBlockType, Padding, PointXY
from ethosu.vela.shape4d import Shape4D

from pyvc.contracts import REGISTRY, contract, implies  # noqa: F401
from pyvc.values import *  # noqa: F401,F403

REGISTRY.declare_struct(Box)


# ---- spec: receptive field of an output interval (from the convolution definition) -------------------------------------
def total_padding_spec(size, stride, k):
    """Smallest total padding such that every stride position has a full window (TensorFlow SAME rule)."""
    return max(k - stride, 0) if size % stride == 0 else max(k - (size % stride), 0)


contract(
    "ethosu.vela.graph_optimiser_util:needed_total_padding", props=["C10"],
    types=dict(input_size=TInt(lo=1, hi=65536), stride=TInt(lo=1, hi=8), filter_size=TInt(lo=1, hi=256)),
    ensures=["result == total_padding_spec(input_size, stride, filter_size)", "result >= 0", "result >= filter_size - stride",
             # with this padding the last window ends exactly at the padded input: (out-1)*stride + k == size + pad
             "implies(filter_size >= stride, ((input_size + stride - 1) // stride - 1) * stride + filter_size == input_size + result)"],
    returns=PyInt,
)

KERNEL = TStruct(Kernel, width=TInt(lo=1, hi=64), height=TInt(lo=1, hi=64),
                 stride=TTuple(TInt(lo=1, hi=3), TInt(lo=1, hi=3), cls=PointXY), dilation=TTuple(TInt(lo=1, hi=2), TInt(lo=1, hi=2), cls=PointXY))
SHAPE4 = TTuple(TInt(lo=1, hi=1), TInt(lo=1, hi=65536), TInt(lo=1, hi=65536), TInt(lo=1, hi=65536), cls=Shape4D)

contract(
    "ethosu.vela.tflite_graph_optimiser:calc_padding_and_skirt", props=["C10"],
    variants={"SAME": dict(padding_type=TConst(Padding.SAME), kernel=KERNEL, input_shape=SHAPE4, explicit_padding=TConst(None)),
              "VALID": dict(padding_type=TConst(Padding.VALID), kernel=KERNEL, input_shape=SHAPE4, explicit_padding=TConst(None))},
    ensures=[
        # result = ((top, left, bottom, right), (skirt_top, skirt_left, skirt_bottom, skirt_right))
        "implies(padding_type == Padding.SAME, result[0][0] + result[0][2] == total_padding_spec(input_shape.height, kernel.stride.y, (kernel.height - 1) * kernel.dilation.y + 1)"
        " and result[0][1] + result[0][3] == total_padding_spec(input_shape.width, kernel.stride.x, (kernel.width - 1) * kernel.dilation.x + 1)"
        " and 0 <= result[0][2] - result[0][0] <= 1 and 0 <= result[0][3] - result[0][1] <= 1)",
        "implies(padding_type == Padding.VALID, result[0] == (0, 0, 0, 0))",
        # the skirt: leading part equals the leading padding; the trailing part covers the rest of the window of the last stride position
        "result[1][0] == result[0][0] and result[1][1] == result[0][1]",
        "result[1][2] >= (kernel.height - 1) * kernel.dilation.y + 1 - kernel.stride.y - result[1][0]",
        "result[1][3] >= (kernel.width - 1) * kernel.dilation.x + 1 - kernel.stride.x - result[1][1]",
        "result[1][2] >= 0 and result[1][3] >= 0",
    ],
)


# ---- Box.transform_with_strides_and_skirt: IFM box and vertical padding for one OFM box ----------------------------------
I4 = TTuple(PyInt, PyInt, PyInt, PyInt)
BOX = TStruct(Box, start_coord=TTuple(TInt(lo=0, hi=0), TInt(lo=0, hi=65535), TInt(lo=0, hi=65535), TInt(lo=0, hi=65535)),
              end_coord=TTuple(TInt(lo=1, hi=1), TInt(lo=1, hi=65536), TInt(lo=1, hi=65536), TInt(lo=1, hi=65536)))
STRIDES = TTuple(TInt(lo=1, hi=1), TInt(lo=1, hi=3), TInt(lo=1, hi=3), TInt(lo=1, hi=1))
SKIRT = TTuple(TInt(lo=0, hi=512), TInt(lo=0, hi=512), TInt(lo=0, hi=512), TInt(lo=0, hi=512))  # SAME / VALID skirts are non-negative (proved above)
BLOCK_TYPES_DOT = [NpuBlockType.ConvolutionMxN, NpuBlockType.VectorProduct, NpuBlockType.ReduceSum]
BLOCK_TYPES_EQ = [NpuBlockType.ConvolutionDepthWise, NpuBlockType.Pooling, NpuBlockType.ElementWise, NpuBlockType.Default]


def need_start(o_start, stride, lead):
    """first input row/column of the receptive field of output interval [o_start, o_end)"""
    return o_start * stride - lead


def need_end(o_end, stride, lead, k):
    """one past the last input row/column of the receptive field"""
    return (o_end - 1) * stride - lead + k


UPSCALE1_ENSURES = [
        # rows: start and both paddings are exactly the receptive field clipped to the IFM
        "result[0].start_coord[1] == max(need_start(self.start_coord[1] - concat_offsets[1], strides[1], skirt[0]), 0)",
        "result[1] == max(0, -need_start(self.start_coord[1] - concat_offsets[1], strides[1], skirt[0]))",
        "implies(self.end_coord[1] - concat_offsets[1] <= ifm_shape.height,"
        " result[2] == max(0, need_end(self.end_coord[1] - concat_offsets[1], strides[1], skirt[0], k_dilated_height) - ifm_shape.height))",
        # rows: the end covers the receptive field, stays inside the IFM and overshoots by less than one stride
        "result[0].end_coord[1] <= ifm_shape.height",
        "implies(self.end_coord[1] - concat_offsets[1] <= ifm_shape.height,"
        " result[0].end_coord[1] >= min(ifm_shape.height, need_end(self.end_coord[1] - concat_offsets[1], strides[1], skirt[0], k_dilated_height)))",
        "implies(self.end_coord[1] - concat_offsets[1] <= ifm_shape.height and skirt[2] == k_dilated_height - strides[1] - skirt[0] + (strides[1] - 1),"
        " result[0].end_coord[1] <= max(1, need_end(self.end_coord[1] - concat_offsets[1], strides[1], skirt[0], k_dilated_height) + strides[1] - 1))",
        # columns
        "result[0].start_coord[2] == max(need_start(self.start_coord[2] - concat_offsets[2], strides[2], skirt[1]), 0)",
        "result[0].end_coord[2] <= ifm_shape.width",
        "implies(self.end_coord[2] - concat_offsets[2] <= ifm_shape.width,"
        " result[0].end_coord[2] >= min(ifm_shape.width, need_end(self.end_coord[2] - concat_offsets[2], strides[2], skirt[1], k_w)))",
        # depth: the whole IFM depth for dot-product style operators, else the OFM depth interval clipped to the IFM
        "implies(npu_block_type in (NpuBlockType.ConvolutionMxN, NpuBlockType.VectorProduct, NpuBlockType.ReduceSum),"
        " result[0].start_coord[3] == 0 and result[0].end_coord[3] == ifm_shape.depth)",
        "implies(npu_block_type not in (NpuBlockType.ConvolutionMxN, NpuBlockType.VectorProduct, NpuBlockType.ReduceSum),"
        " result[0].start_coord[3] == self.start_coord[3] - concat_offsets[3]"
        " and result[0].end_coord[3] == min(self.end_coord[3] - concat_offsets[3], ifm_shape.depth))",
        # batch untouched; the result is a well-formed box (the constructor's asserts are discharged as no_exception obligations)
        "result[0].start_coord[0] == 0 and result[0].end_coord[0] == 1",
        "all(result[0].start_coord[i] <= result[0].end_coord[i] for i in range(4))",
]

contract(
    "ethosu.vela.high_level_command_stream:Box.transform_with_strides_and_skirt", props=["C10"],
    variants={
        "no_split,upscale=1,%s" % name: dict(
            self=BOX, strides=STRIDES, skirt=SKIRT, ifm_shape=SHAPE4, npu_block_type=TEnum(NpuBlockType, members=members),
            concat_offsets=TTuple(TInt(lo=0, hi=0), TInt(lo=0, hi=65535), TInt(lo=0, hi=65535), TInt(lo=0, hi=65535)),
            k_dilated_height=TInt(lo=1, hi=256), split_offset=TConst(None), split_shape=TConst(None), upscaling_factor=TConst(1),
            op_type=TConst(None), k_w=TInt(lo=1, hi=256))   # k_w: ghost (dilated kernel width; the function is not given it)
        for name, members in (("dot_product_ops", BLOCK_TYPES_DOT), ("equal_depth_ops", BLOCK_TYPES_EQ))
    } | {
        # 2x IFM upscaling (nearest-neighbour resize, transpose convolution): stride 1 in the upscaled space
        "no_split,upscale=2": dict(
            self=BOX, strides=TTuple(TInt(lo=1, hi=1), TInt(lo=1, hi=1), TInt(lo=1, hi=1), TInt(lo=1, hi=1)), skirt=SKIRT, ifm_shape=SHAPE4,
            npu_block_type=TEnum(NpuBlockType, members=BLOCK_TYPES_EQ),
            concat_offsets=TTuple(TInt(lo=0, hi=0), TInt(lo=0, hi=65535), TInt(lo=0, hi=65535), TInt(lo=0, hi=65535)),
            k_dilated_height=TInt(lo=1, hi=256), split_offset=TConst(None), split_shape=TConst(None), upscaling_factor=TConst(2),
            op_type=TConst(None), k_w=TInt(lo=1, hi=256)),
    },
    requires=[
        # the OFM box (after removing the concat offset) is non-empty and non-negative
        "all(concat_offsets[i] <= self.start_coord[i] < self.end_coord[i] for i in range(1, 4))",
        # skirt as produced by calc_padding_and_skirt (proved there): the trailing part covers the last window
        "skirt[2] >= k_dilated_height - strides[1] - skirt[0]", "skirt[3] >= k_w - strides[2] - skirt[1]",
        # the first column the box needs lies inside the IFM (a stripe of the operator's own OFM)
        "need_start(self.start_coord[2] - concat_offsets[2], strides[2], skirt[1]) < ifm_shape.width",
        "self.start_coord[3] - concat_offsets[3] < ifm_shape.depth",
    ],
    variant_requires={
        "no_split,upscale=1,dot_product_ops": ["need_start(self.start_coord[1] - concat_offsets[1], strides[1], skirt[0]) < ifm_shape.height"],
        "no_split,upscale=1,equal_depth_ops": ["need_start(self.start_coord[1] - concat_offsets[1], strides[1], skirt[0]) < ifm_shape.height"],
        "no_split,upscale=2": [
        # rows of the UPSCALED IFM: the first needed row lies inside it, and the stripe is not the special VALID transpose-convolution case
        "need_start(self.start_coord[1] - concat_offsets[1], 1, skirt[0]) < 2 * ifm_shape.height",
        "self.end_coord[1] - concat_offsets[1] <= 2 * ifm_shape.height",
        # stripes of an upscaled operator end on an even output row unless they reach the end of the upscaled IFM (the scheduler forces even
        # stripe heights in cascades that contain an upscaling operator)
        "(self.end_coord[1] - concat_offsets[1]) % 2 == 0 or (self.end_coord[1] - concat_offsets[1]) + skirt[2] >= 2 * ifm_shape.height",
    ]},
    variant_ensures={
        "no_split,upscale=1,dot_product_ops": UPSCALE1_ENSURES, "no_split,upscale=1,equal_depth_ops": UPSCALE1_ENSURES,
        "no_split,upscale=2": [
            # the returned rows, mapped back to the upscaled IFM (row r covers upscaled rows 2r, 2r+1), contain the receptive field clipped to it
            "2 * result[0].end_coord[1] >= min(2 * ifm_shape.height, need_end(self.end_coord[1] - concat_offsets[1], 1, skirt[0], k_dilated_height))",
            "result[0].end_coord[1] <= ifm_shape.height and 0 <= result[0].start_coord[1] <= result[0].end_coord[1]",
            # (the start row / top padding of the upscaled case - an odd top skirt row is accounted as padding - is not specified here)
        ],
    },
)


# ---- rolling buffer between cascaded operators ---------------------------------------------------------------------------
from ethosu.vela import cascade_builder as cb  # noqa: E402

STRIPE = TTuple(TInt(lo=1, hi=1), TInt(lo=1, hi=65536), TInt(lo=1, hi=65536), TInt(lo=1, hi=65536), cls=Shape4D)

contract(
    "ethosu.vela.cascade_builder:rolling_buffer_shape", props=["C10", "C02"],   # C02: the buffer booked for a cascade holds what is written
    # ghosts: a = first row the consumer stripe still needs, r1 < r2 two rows among those c rows and the p rows written next
    types=dict(producer_stripe=STRIPE, consumer_stripe_input=STRIPE, a=TInt(lo=0), r1=PyInt, r2=PyInt),
    ensures=[
        "result.height % consumer_stripe_input.height == 0",
        "result.height >= producer_stripe.height + consumer_stripe_input.height",
        "result.height < producer_stripe.height + 2 * consumer_stripe_input.height",
        "result.width == max(producer_stripe.width, consumer_stripe_input.width)",
        "result.depth % 16 == 0 and producer_stripe.depth <= result.depth < producer_stripe.depth + 16 and result.batch == 1",
        # liveness: with rows stored at (row mod height), the rows a consumer stripe still needs and the rows the producer
        # writes next never share a slot, so no row is overwritten before its last consumer stripe has read it
        "implies(a <= r1 < r2 < a + consumer_stripe_input.height + producer_stripe.height, r1 % result.height != r2 % result.height)",
    ],
)


# ===== IFM area needed for an OFM area (architecture_allocator.py): sizes stripe inputs and rolling buffers ==========================
from ethosu.vela import architecture_allocator as aa  # noqa: E402
from ethosu.vela.architecture_features import Block  # noqa: E402
from ethosu.vela.ethos_u55_regs.ethos_u55_regs import resampling_mode  # noqa: E402


def rows_needed(out_rows, stride, dilated_kernel, upscale, nearest):
    """IFM rows (after undoing the upscaling) read by `out_rows` consecutive output rows: the receptive field is
    (out_rows - 1) * stride + dilated_kernel rows of the upscaled IFM (+1 for nearest-neighbour resampling), divided by the upscale
    factor and rounded up."""
    return ((out_rows - 1) * stride + dilated_kernel + (1 if nearest else 0) + upscale - 1) // upscale


contract(
    "ethosu.vela.architecture_allocator:_required_size", props=["C10", "C15"],
    variants={"upscale=%d" % u: dict(value=TInt(lo=1, hi=65536), stride=TInt(lo=1, hi=8), border=TInt(lo=1, hi=256), upscale=TConst(u), nearest=PyBool)
              for u in (1, 2)},
    ensures=["result == rows_needed(value, stride, border, upscale, nearest)"],
    returns=PyInt,
)

OFM_AREA = TStruct(Block, width=TInt(lo=1, hi=65536), height=TInt(lo=1, hi=65536), depth=TInt(lo=1, hi=65536))

contract(
    "ethosu.vela.architecture_allocator:get_ifm_area_required", props=["C10"],
    types=dict(ofm_shape=OFM_AREA, kernel=KERNEL, resampling_mode=TEnum(resampling_mode)),
    ensures=[
        # (width, height): each axis with ITS OWN stride and dilated kernel extent
        "result[0] == rows_needed(ofm_shape.width, kernel.stride.x, (kernel.width - 1) * kernel.dilation.x + 1,"
        " 1 if resampling_mode == resampling_mode.NONE else 2, resampling_mode == resampling_mode.NEAREST)",
        "result[1] == rows_needed(ofm_shape.height, kernel.stride.y, (kernel.height - 1) * kernel.dilation.y + 1,"
        " 1 if resampling_mode == resampling_mode.NONE else 2, resampling_mode == resampling_mode.NEAREST)",
        # enough for the box the stripe generator later requests (no upscaling): at least the receptive field
        "implies(resampling_mode == resampling_mode.NONE, result[1] >= (ofm_shape.height - 1) * kernel.stride.y + (kernel.height - 1) * kernel.dilation.y + 1)",
    ],
)
