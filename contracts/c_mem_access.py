"""Contracts for property C02 (every NPU memory access stays inside the region the output model declares):
address computation and footprints in register_command_stream_util.py, the limit check in
register_command_stream_generator.py, region / limit tables in high_level_command_to_npu_op.py."""
from ethosu.vela import register_command_stream_util as ru
from ethosu.vela.api import NpuAddressRange, NpuLayout, NpuShape3D

from pyvc.contracts import REGISTRY, contract, implies  # noqa: F401
from pyvc.values import *  # noqa: F401,F403

from contracts.c_rcs_util import FM, STRIDE

COORD = TInt(lo=0, hi=65535)


def fm_of(layout):
    """feature map type restricted to one layout (one proof per layout)"""
    f = dict(FM.fields)
    f["layout"] = TEnum(NpuLayout, members=[layout])
    return TStruct(FM.cls, **f)

STRIDES = TTuple(STRIDE, STRIDE, STRIDE, cls=NpuShape3D)


# ---- spec: Ethos-U feature-map addressing (hardware reference: tile select, then NHWC or NHCWB16 brick format) ------
def tile_of(fm, y, x):
    """Tile that holds element (y, x): tiles 0/2 left of width_0 (split at height_0), tiles 1/3 right of it (split at height_1)."""
    return ((3 if y >= fm.tiles.height_1 else 1) if x >= fm.tiles.width_0 else (2 if y >= fm.tiles.height_0 else 0))


def tile_base(fm, t):
    return (fm.tiles.addresses[0] if t == 0 else fm.tiles.addresses[1] if t == 1 else fm.tiles.addresses[2] if t == 2 else fm.tiles.addresses[3])


def rel_y(fm, y, x):
    """row relative to the origin of the tile holding (y, x)"""
    return y - (fm.tiles.height_1 if tile_of(fm, y, x) == 3 else fm.tiles.height_0 if tile_of(fm, y, x) == 2 else 0)


def rel_x(fm, y, x):
    return x - (fm.tiles.width_0 if (tile_of(fm, y, x) == 1 or tile_of(fm, y, x) == 3) else 0)


def brick(fm, strides, c):
    """NHCWB16: offset of channel c inside a pixel's brick column"""
    return (c // 16) * strides.depth + (c % 16) * fm.data_type.size_in_bytes()


def hw_addr(fm, strides, y, x, c):
    """Byte address of element (y, x, c).
    NHWC:     base(tile) + y' * stride_y + x' * stride_x + c * elem_size
    NHCWB16:  base(tile) + y' * stride_y + (c div 16) * stride_c + x' * 16 * elem_size + (c mod 16) * elem_size
    with (y', x') the coordinates relative to the tile's origin."""
    es = fm.data_type.size_in_bytes()
    return tile_base(fm, tile_of(fm, y, x)) + rel_y(fm, y, x) * strides.height + (
        rel_x(fm, y, x) * strides.width + c * es if fm.layout == NpuLayout.NHWC else brick(fm, strides, c) + rel_x(fm, y, x) * 16 * es)


contract(
    "ethosu.vela.register_command_stream_util:get_address", props=["C02"],
    types=dict(fm=FM, strides=STRIDES, y=COORD, x=COORD, c=COORD),
    ensures=["result == hw_addr(fm, strides, y, x, c)", "result >= 0"],
    returns=PyInt,
)

# Footprint soundness of one range: every element of the box (y0..y1, x0..x1, c0..c1), which lies in ONE tile, has all of
# its bytes inside the returned range. (yy, xx, cc) are ghost parameters = universally quantified element of the box.
# NHCWB16 needs stride_c >= 16 * elem_size for the address to be monotone in c (get_strides' own result satisfies it:
# proved there; user-supplied strides: part of legal(op)).
contract(
    "ethosu.vela.register_command_stream_util:get_address_range", props=["C02"],
    variants={lay.name: dict(fm=fm_of(lay), strides=STRIDES, y0=COORD, x0=COORD, c0=COORD, y1=COORD, x1=COORD, c1=COORD, yy=COORD, xx=COORD, cc=COORD)
              for lay in NpuLayout},
    requires=["y0 <= y1 and x0 <= x1 and c0 <= c1",
              "tile_of(fm, y0, x0) == tile_of(fm, y1, x1)",
              "implies(fm.layout == NpuLayout.NHCWB16, strides.depth >= 16 * fm.data_type.size_in_bytes())"],
    ensures=[
        "result.region == fm.region",
        "result.address == hw_addr(fm, strides, y0, x0, c0)",
        "result.address + result.length == hw_addr(fm, strides, y1, x1, c1) + fm.data_type.size_in_bytes()",
        # lemmas (monotonicity of each address term, stated on the terms of hw_addr)
        "lemma: implies(y0 <= yy <= y1 and x0 <= xx <= x1, tile_of(fm, yy, xx) == tile_of(fm, y0, x0))",
        "lemma: implies(y0 <= yy <= y1 and x0 <= xx <= x1, rel_y(fm, y0, x0) * strides.height <= rel_y(fm, yy, xx) * strides.height <= rel_y(fm, y1, x1) * strides.height)",
        "lemma: implies(y0 <= yy <= y1 and x0 <= xx <= x1, rel_x(fm, y0, x0) * strides.width <= rel_x(fm, yy, xx) * strides.width <= rel_x(fm, y1, x1) * strides.width)",
        "lemma: implies(c0 <= cc <= c1, c0 // 16 <= cc // 16 <= c1 // 16)",
        "lemma: implies(c0 // 16 < cc // 16, (cc // 16 - c0 // 16 - 1) * strides.depth >= 0)",
        "lemma: implies(cc // 16 < c1 // 16, (c1 // 16 - cc // 16 - 1) * strides.depth >= 0)",
        "lemma: implies(c0 <= cc <= c1 and fm.layout == NpuLayout.NHCWB16, brick(fm, strides, c0) <= brick(fm, strides, cc) <= brick(fm, strides, c1))",
        # corner-to-corner instances of the same facts
        "lemma: rel_y(fm, y0, x0) * strides.height <= rel_y(fm, y1, x1) * strides.height and rel_x(fm, y0, x0) * strides.width <= rel_x(fm, y1, x1) * strides.width",
        "lemma: c0 // 16 <= c1 // 16 and implies(c0 // 16 == c1 // 16, c0 % 16 <= c1 % 16)",
        "lemma: implies(c0 // 16 < c1 // 16, (c1 // 16 - c0 // 16 - 1) * strides.depth >= 0)",
        "lemma: implies(fm.layout == NpuLayout.NHCWB16, brick(fm, strides, c0) <= brick(fm, strides, c1))",
        "result.length >= fm.data_type.size_in_bytes()",
        "implies(y0 <= yy <= y1 and x0 <= xx <= x1 and c0 <= cc <= c1,"
        " result.address <= hw_addr(fm, strides, yy, xx, cc)"
        " and hw_addr(fm, strides, yy, xx, cc) + fm.data_type.size_in_bytes() <= result.address + result.length)",
    ],
    returns=TTuple(PyInt, PyInt, PyInt, cls=NpuAddressRange),
)


def in_range(r, a, n):
    """bytes [a, a + n) lie inside address range r"""
    return r is not None and r.address <= a and a + n <= r.address + r.length


RANGE_OUT = TTuple(PyInt, PyInt, PyInt, cls=NpuAddressRange)

# Footprint soundness of the four per-tile ranges: EVERY element (yy, xx, cc) of the feature map's shape has all its bytes in
# the range of some tile (quantified over the whole shape, not only the corners, so a wrong tile rule cannot verify).
contract(
    "ethosu.vela.register_command_stream_util:get_address_ranges", props=["C02"],
    variants={lay.name: dict(fm=fm_of(lay), yy=COORD, xx=COORD, cc=COORD) for lay in NpuLayout},
    requires=[
        # tile boxes as the compiler builds them (Tensor.addresses_for_rolling_buffer, modify_tile_addresses_for_padding):
        # non-empty first tile, and both tile columns split at the same row (height_1 == height_0). For height_1 != height_0 the
        # function is NOT a sound footprint (tile 3 is only reported when tiles 1 and 2 both exist, and its range is ill-formed
        # when height_1 >= height): such tile boxes can only come from a user of the external API, never from the compiler.
        "fm.tiles.height_0 >= 1 and fm.tiles.width_0 >= 1 and fm.tiles.height_1 == fm.tiles.height_0",
        "implies(fm.strides is not None and fm.layout == NpuLayout.NHCWB16, fm.strides.depth >= 16 * fm.data_type.size_in_bytes())",
    ],
    ensures=[
        "len(result) == 4 and result[0] is not None",
        "all(result[t] is None or (result[t].region == fm.region and result[t].address >= 0 and result[t].length >= 1) for t in range(4))",
        "implies(yy < fm.shape.height and xx < fm.shape.width and cc < fm.shape.depth,"
        " in_range(result[tile_of(fm, yy, xx)], hw_addr(fm, ru.get_strides(fm), yy, xx, cc), fm.data_type.size_in_bytes()))",
    ],
    returns=TList(TOpt(RANGE_OUT)),
    ghost_args={"ethosu.vela.register_command_stream_util:get_address_range": dict(yy="yy", xx="xx", cc="cc")},
)


# ===== the limit check that guards every operation (register_command_stream_generator.check_mem_limits) ====================
from ethosu.vela import register_command_stream_generator as rg  # noqa: E402
from ethosu.vela.errors import VelaError  # noqa: E402
from ethosu.vela.range_set import MemoryAccessSet, MemoryRangeSet  # noqa: E402

from pyvc.contracts import forall_int, items_of  # noqa: E402,F401

from contracts.c_range_set import RANGESET  # noqa: E402

MRS = TObj(MemoryRangeSet)
REGISTRY.declare_class(MemoryRangeSet, regions=TMap(RANGESET))
MAS = TObj(MemoryAccessSet)
REGISTRY.declare_class(MemoryAccessSet, accesses=TList(MRS))
LIMITS = TMap(PyInt)


def range_ok(limit, start, end):
    """both ends of the byte range [start, end) are valid offsets into a region of `limit` bytes (end is exclusive)"""
    return 0 <= start <= limit and 0 <= end <= limit


def region_ok(region, range_set, limits):
    """the region is known and every range accessed in it stays inside its extent"""
    return limits.get(region) is not None and all(
        range_ok(limits.get(region), range_set.ranges[i][0], range_set.ranges[i][1]) for i in range(len(range_set.ranges)))


def access_ok(mrs, limits):
    return forall_int(lambda r: implies(mrs.regions.get(r) is not None, region_ok(r, mrs.regions.get(r), limits)))


def limits_ok(mas, limits):
    """every access (read and write direction) of the operation stays inside the extent of the region it names"""
    return all(access_ok(mas.accesses[i], limits) for i in range(len(mas.accesses)))


contract(
    "ethosu.vela.register_command_stream_generator:check_mem_limits", props=["C02"],
    types=dict(memory_accesses=MAS, mem_limits=LIMITS),
    # returns normally IFF every accessed range lies inside its region's extent; otherwise VelaError (both directions)
    raises=[(VelaError, "not limits_ok(memory_accesses, mem_limits)")],
    loops={
        0: dict(invariants=["all(access_ok(memory_accesses.accesses[i], mem_limits) for i in range(_it0))"]),
        1: dict(invariants=["all(region_ok(items_of(mem_access.regions)[j][0], items_of(mem_access.regions)[j][1], mem_limits) for j in range(_it1))"]),
        2: dict(invariants=["mem_limits.get(region) is not None and max == mem_limits.get(region)",
                            "all(range_ok(max, range_set.ranges[i][0], range_set.ranges[i][1]) for i in range(_it2))"]),
    },
    hints={
        # at each of the three raise statements: the current range / region / access is a witness of the violation (proof steps)
        "before:raise VelaError(": [
            "not region_ok(region, range_set, mem_limits)",
            "not access_ok(mem_access, mem_limits)",
            "not limits_ok(memory_accesses, mem_limits)",
        ],
        # after the loop over a region map: every present region was listed, hence the whole access is fine
        "after:for region, range_set in mem_access.regions.items()": ["access_ok(mem_access, mem_limits)"],
    },
    assumptions=["dict iteration order is arbitrary (items() is modelled as a duplicate-free listing of exactly the present keys)"],
)


# ===== region / limit tables (high_level_command_to_npu_op.py) ===========================================================
from ethosu.vela import high_level_command_to_npu_op as hl  # noqa: E402
from ethosu.vela.architecture_features import MemPort  # noqa: E402
from ethosu.vela.tensor import MemArea, MemType  # noqa: E402

from contracts.c_config import ARCHF, mapped  # noqa: E402

REGION_CONST, REGION_SCRATCH, REGION_SCRATCH_FAST = 0, 1, 2     # base pointer indices of the driver interface (constants / arena / fast arena)
PORTS_OK = ["arch.cache_mem_area in (MemPort.Axi0, MemPort.Axi1)", "arch.arena_mem_area in (MemPort.Axi0, MemPort.Axi1)"]


def spilling(arch):
    """Dedicated-SRAM memory mode: the cache area is Sram and is not the arena area"""
    return mapped(arch, arch.cache_mem_area) == MemArea.Sram and arch.cache_mem_area != arch.arena_mem_area


contract(
    "ethosu.vela.high_level_command_to_npu_op:get_region", props=["C02"],
    types=dict(mem_type=TEnum(MemType, members=list(MemType.all())), arch=ARCHF),
    requires=PORTS_OK,
    ensures=[
        # constants live in region 0 and ONLY the two permanent memory types are mapped there
        "(result == REGION_CONST) == (mem_type in (MemType.Permanent_NPU, MemType.Permanent_CPU))",
        "implies(mem_type == MemType.Scratch, result == REGION_SCRATCH)",
        "implies(mem_type == MemType.Scratch_fast, result == (REGION_SCRATCH_FAST if spilling(arch) else REGION_SCRATCH))",
    ],
    returns=PyInt,
)

contract(
    "ethosu.vela.high_level_command_to_npu_op:get_mem_limits_for_regions", props=["C02"],
    types=dict(arch=ARCHF),
    requires=PORTS_OK,
    ensures=[
        "result.get(REGION_CONST) == arch.max_address_offset and result.get(REGION_SCRATCH) == arch.max_address_offset",
        # Dedicated-SRAM modes: the fast scratch region is limited by the configured arena cache size; otherwise it does not exist
        "implies(spilling(arch), result.get(REGION_SCRATCH_FAST) == arch.arena_cache_size)",
        "implies(not spilling(arch), result.get(REGION_SCRATCH_FAST) is None)",
        "result.get(ru.BASE_PTR_INDEX_MEM2MEM) == arch.shram_size_bytes",
        # no other region is accepted
        "forall_int(lambda r: implies(result.get(r) is not None, r in (REGION_CONST, REGION_SCRATCH, REGION_SCRATCH_FAST, ru.BASE_PTR_INDEX_MEM2MEM)))",
    ],
    returns=LIMITS, local_types={"mem_limits": LIMITS}, allocates=True,
)


# ===== MemoryRangeSet.intersects / MemoryAccessSet.conflicts: conflict detection per region and per access direction ==================
from contracts.c_range_set import rs_overlap, rs_wf  # noqa: E402


def mrs_wf(m):
    return forall_int(lambda r: implies(m.regions.get(r) is not None, rs_wf(m.regions.get(r))))


def mrs_overlap(a, b):
    """some region is accessed by both and the accesses share a byte there"""
    return not forall_int(lambda r: not (a.regions.get(r) is not None and b.regions.get(r) is not None and rs_overlap(a.regions.get(r), b.regions.get(r))))


contract(
    "ethosu.vela.range_set:MemoryRangeSet.intersects", props=["C04"],
    types=dict(self=MRS, other=MRS),
    requires=["mrs_wf(self)", "mrs_wf(other)"],
    loops={0: dict(invariants=[
        # no region examined so far (a region present in both sets) has overlapping ranges
        "all(not rs_overlap(self.regions.get((self.regions.keys() & other.regions.keys())[j]), other.regions.get((self.regions.keys() & other.regions.keys())[j]))"
        " for j in range(_it0))",
    ])},
    hints={"after:if self.regions[mem_area].intersects(": ["not rs_overlap(self.regions.get(mem_area), other.regions.get(mem_area))"]},
    # exact: True iff the two sets share a byte in some region (a missed overlap would hide a conflict, a spurious one only costs a wait)
    ensures=["result == mrs_overlap(self, other)"],
    returns=PyBool,
)


def mas_wf(a):
    return len(a.accesses) == 2 and mrs_wf(a.accesses[0]) and mrs_wf(a.accesses[1])


contract(
    "ethosu.vela.range_set:MemoryAccessSet.conflicts", props=["C04"],
    types=dict(self=MAS, other=MAS),
    requires=["mas_wf(self)", "mas_wf(other)"],
    # exact: a conflict is a byte written by one and read or written by the other (read/read is not a conflict); index 0 = Read, 1 = Write
    ensures=["result == (mrs_overlap(self.accesses[1], other.accesses[0]) or mrs_overlap(self.accesses[0], other.accesses[1])"
             " or mrs_overlap(self.accesses[1], other.accesses[1]))"],
    returns=PyBool,
    assumptions=["functools.lru_cache on conflicts: sound only if access sets are not mutated after their first use (all add() calls of "
                 "generate_command_stream precede the first conflicts(); not under contract)"],
)
