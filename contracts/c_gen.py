"""Contracts for the stripe generator (property C10): kernel extent used for the per-stripe IFM boxes."""
from ethosu.vela import high_level_command_stream_generator as hlg
from ethosu.vela.operation import NpuBlockType

from pyvc.contracts import REGISTRY, contract, implies  # noqa: F401
from pyvc.slicer import drop_outside
from pyvc.values import *  # noqa: F401,F403


class _POp:
    pass


class _WT:
    pass


I4 = TTuple(TInt(lo=1, hi=256), TInt(lo=1, hi=256), TInt(lo=1, hi=256), TInt(lo=1, hi=256))
_GEN = hlg.generate_high_level_commands_for_sched_op


def _types(has_dilation, has_weights):
    attrs = dict(ksize=I4)
    if has_dilation:
        attrs["dilation"] = I4          # NHWC order: (1, dilation_h, dilation_w, 1)
    return dict(sched_op=TOpaque("sched_op"), schedule=TOpaque("schedule"),
                npu_block_type=TEnum(NpuBlockType), parent_op=TStruct(_POp, attrs=TDict(**attrs)),
                uncomp_weight_tensor=(TStruct(_WT, shape=I4) if has_weights else TConst(None)), _=TOpaque("unused"))


contract(
    "ethosu.vela.high_level_command_stream_generator:generate_high_level_commands_for_sched_op", props=["C10"],
    # window slice: the statements that derive the dilated kernel HEIGHT handed to Box.transform_with_strides_and_skirt for every stripe
    variants={"dilation=%s,weights=%s" % (d, w): _types(d, w) for d in (True, False) for w in (True, False)},
    slice_drop=drop_outside(_GEN, "k_height = 1", "k_dilated_height ="),
    ensures=[
        # kernel height: pooling window height (ksize is NHWC) for pooling / reduce-sum, weight tensor height (HWIO) otherwise, else 1
        "_local_k_height == (parent_op.attrs['ksize'][1] if npu_block_type in (NpuBlockType.Pooling, NpuBlockType.ReduceSum)"
        " else (uncomp_weight_tensor.shape[0] if uncomp_weight_tensor is not None else 1))",
        # dilated extent along HEIGHT: dilation_h * (k_h - 1) + 1 with dilation_h the H entry of the NHWC dilation attribute (1 if absent)
        "_local_k_dilated_height == (parent_op.attrs['dilation'][1] if 'dilation' in parent_op.attrs else 1) * (_local_k_height - 1) + 1",
    ],
    replay=False,
    assumptions=["window slice of a generator function: only the kernel-extent statements are verified here; the stripe loops that consume "
                 "k_dilated_height are not under contract"],
)


# ===== rolling-buffer shapes are computed afresh for every cascade build (C10: a cached shape from a schedule with other stripes
# would size the rolling buffer for the wrong stripe heights) ========================================================================
from ethosu.vela import cascade_builder as cb  # noqa: E402

REGISTRY.declare_struct(cb.BufferMap)

contract(
    "ethosu.vela.cascade_builder:CascadeBuilder.build_cascades", props=["C10"],
    # window slice: the statement that creates the buffer cache used by this build
    types=dict(self=TOpaque("CascadeBuilder"), ref_schedule=TOpaque("schedule"), fallback_schedule=TOpaque("schedule"), guiding_mem_limit=PyInt),
    slice_drop=drop_outside(cb.CascadeBuilder.build_cascades, "buffers = ", "buffers = "),
    ensures=["len(_local_buffers.buffer_map) == 0"],      # nothing cached from an earlier build (other stripes) can be returned
    replay=False,
    assumptions=["window slice: only the creation of the buffer cache is verified; the cascade search itself is not under contract"],
)
