"""C06 / C15: SHRAM layout registers and the IFM2 broadcast register."""
from ethosu.vela import register_command_stream_generator as rg
from ethosu.vela.api import NpuBlockOperation, NpuElementWiseOperation
from ethosu.vela.architecture_allocator import ArchitectureBlockConfig, SHRAMLayout
from ethosu.vela.architecture_features import SHRAMElements
from ethosu.vela.ethos_u55_regs.ethos_u55_regs import acc_format, cmd0

from pyvc.contracts import REGISTRY, contract, implies  # noqa: F401
from pyvc.values import *  # noqa: F401,F403

from contracts.c_emitter import EMIT, emit_inv, machine_of  # noqa: F401
from contracts.c_generators import COMMON, D, FM, KEEP, mm

BANK = TInt(lo=0, hi=48)
LAYOUT = TStruct(SHRAMLayout, ib_start=BANK, ib_end=BANK, ib_start2=BANK, ab_start=BANK, lut_start=BANK)
ABC = TStruct(ArchitectureBlockConfig, layout=LAYOUT, acc_type=TInt(lo=SHRAMElements.Acc16, hi=SHRAMElements.Acc40))
OP_SHRAM = TStruct(NpuBlockOperation, ifm2=TOpt(FM), ifm2_scalar=TOpt(F64))


def acc_format_of(acc_type):
    """ACC_FORMAT register: 0 = 32-bit integer, 1 = 40-bit integer, 2 = 16-bit float accumulators (register reference)"""
    return (acc_format.FP_S5_10.value if acc_type == SHRAMElements.Acc16 else acc_format.INT_32BIT.value if acc_type == SHRAMElements.Acc32
            else acc_format.INT_40BIT.value)


contract(
    "ethosu.vela.register_command_stream_generator:generate_shram_registers", props=["C06", "C15"],
    variants={"default": dict(emit=EMIT, npu_op=OP_SHRAM, arch_block_config=ABC)},
    requires=["emit_inv(emit)"],
    # the SHRAM partition registers hold exactly the validated layout (C15) of the operation's block configuration
    ensures=KEEP + [
        "D(emit, cmd0.NPU_SET_IFM_IB_END) == arch_block_config.layout.ib_end",
        "D(emit, cmd0.NPU_SET_AB_START) == arch_block_config.layout.ab_start",
        "implies(npu_op.ifm2 is not None and npu_op.ifm2_scalar is None, D(emit, cmd0.NPU_SET_IFM2_IB_START) == arch_block_config.layout.ib_start2)",
        "D(emit, cmd0.NPU_SET_ACC_FORMAT) == acc_format_of(arch_block_config.acc_type)",
    ],
    modifies=["emit.cmd_stream", "emit.offset"], ghost_fields=["decoded"],
    modifies_maps=mm("cmd0.NPU_SET_IFM_IB_END", "cmd0.NPU_SET_AB_START", "cmd0.NPU_SET_IFM2_IB_START", "cmd0.NPU_SET_ACC_FORMAT"),
)

SH3 = TStruct(FM.cls, shape=FM.fields["shape"])
OP_BC = TStruct(NpuElementWiseOperation, ifm=FM, ifm2=FM, ifm2_scalar=TOpt(F64), reversed_operands=PyBool)


def broadcast_word(op):
    """IFM2_BROADCAST register (register reference): bit 0/1/2 broadcast along H/W/C, bit 6 reversed operand order, bit 7 IFM2 is a scalar"""
    return ((64 if op.reversed_operands else 0) + (128 if op.ifm2_scalar is not None else
            ((1 if op.ifm.shape.height != op.ifm2.shape.height else 0) + (2 if op.ifm.shape.width != op.ifm2.shape.width else 0)
             + (4 if op.ifm.shape.depth != op.ifm2.shape.depth else 0))))


contract(
    "ethosu.vela.register_command_stream_generator:generate_ifm2_broadcast", props=["C06"],
    variants={"default": dict(emit=EMIT, npu_op=OP_BC)},
    # legal(op): a dimension in which the shapes differ has extent 1 in IFM2 (the function's own asserts)
    requires=["emit_inv(emit)",
              "implies(npu_op.ifm2_scalar is None, (npu_op.ifm.shape.height == npu_op.ifm2.shape.height or npu_op.ifm2.shape.height == 1)"
              " and (npu_op.ifm.shape.width == npu_op.ifm2.shape.width or npu_op.ifm2.shape.width == 1)"
              " and (npu_op.ifm.shape.depth == npu_op.ifm2.shape.depth or npu_op.ifm2.shape.depth == 1))"],
    ensures=KEEP + ["D(emit, cmd0.NPU_SET_IFM2_BROADCAST) == broadcast_word(npu_op)"],
    modifies=["emit.cmd_stream", "emit.offset"], ghost_fields=["decoded"],
    modifies_maps=mm("cmd0.NPU_SET_IFM2_BROADCAST"),
)
