"""Contracts for ethosu/vela/fp_math.py (property C19: compile-time fixed-point helpers equal the gemmlowp reference
bit for bit, for every integer type they are called with)."""
import numpy as np

from pyvc.contracts import contract, implies, bitlen  # noqa: F401
from pyvc.values import *  # noqa: F401,F403
from pyvc.spec import spec_fn

I32_MIN, I32_MAX = -(2**31), 2**31 - 1
I16_MIN, I16_MAX = -(2**15), 2**15 - 1


# ---- gemmlowp / TFLite reference, as mathematical functions on Z (written from fixedpoint.h, not from the code) ----
@spec_fn
def tdiv(x, d):
    """C++ integer division (truncation toward zero), d > 0."""
    return x // d if x >= 0 else -((-x) // d)


@spec_fn
def sat32(x):
    return I32_MAX if x > I32_MAX else (I32_MIN if x < I32_MIN else x)


@spec_fn
def sat16(x):
    return I16_MAX if x > I16_MAX else (I16_MIN if x < I16_MIN else x)


@spec_fn
def srdhm32(a, b):
    """SaturatingRoundingDoublingHighMul<int32>."""
    return I32_MAX if (a == b and a == I32_MIN) else tdiv(a * b + (2**30 if a * b >= 0 else 1 - 2**30), 2**31)


@spec_fn
def srdhm16(a, b):
    return I16_MAX if (a == b and a == I16_MIN) else tdiv(a * b + (2**14 if a * b >= 0 else 1 - 2**14), 2**15)


@spec_fn
def sdhm16(a, b):
    """SaturatingDoublingHighMul<int16> (TFLite Micro hard_swish): truncating, no rounding."""
    return I16_MAX if (a == b and a == I16_MIN) else tdiv(a * b, 2**15)


@spec_fn
def rdbp(x, e):
    """RoundingDivideByPOT: round to nearest, ties away from zero."""
    return (x >> e) + (1 if (x & (2**e - 1)) > ((2**e - 1) >> 1) + (1 if x < 0 else 0) else 0)


@spec_fn
def rdbp_math(x, e):
    """The same, stated arithmetically: round-half-away-from-zero of x / 2**e."""
    return (x + 2**e // 2) >> e if x >= 0 else -((-x + 2**e // 2) >> e)


# Numeric types that reach these helpers from their call sites (convert_lrelu_to_lut / create_lut_rsqrt / optimise_quantize:
# python int or np.int64 = `x - zero_point`; convert_hardswish_to_lut: np.int64 hires value, np.int16 / np.int32 intermediate
# values, int or np.int16 multipliers; softmax: python int). np.int8/np.int16 operands reach multiply_by_quantized_multiplier
# only when a zero point is a plain python int, which the readers never produce (they deliver np.int64).
INT_TYPES = {"int": PyInt, "np.int64": I64}
INT16_TYPES = {"int": PyInt, "np.int16": I16, "np.int32": I32, "np.int64": I64}


def two(tys):
    return {"%s,%s" % (ka, kb): dict(a=ta, b=tb) for ka, ta in tys.items() for kb, tb in tys.items()}


contract(
    "ethosu.vela.fp_math:saturating_rounding_mul32", props=["C19"], variants=two(dict(INT_TYPES, **{"np.int32": I32})),
    requires=["I32_MIN <= a <= I32_MAX", "I32_MIN <= b <= I32_MAX"],   # the function's own asserts
    ensures=["int(result) == srdhm32(a, b)", "I32_MIN <= result <= I32_MAX"],
    returns=PyInt,
)
contract(
    "ethosu.vela.fp_math:saturating_rounding_mul16", props=["C19"], variants=two(INT16_TYPES),
    requires=["I16_MIN <= a <= I16_MAX", "I16_MIN <= b <= I16_MAX"],
    ensures=["int(result) == srdhm16(a, b)", "I16_MIN <= result <= I16_MAX"],
    returns=PyInt,
)
contract(
    "ethosu.vela.fp_math:saturating_mul16", props=["C19"], variants=two(INT16_TYPES),
    requires=["I16_MIN <= a <= I16_MAX", "I16_MIN <= b <= I16_MAX"],
    ensures=["int(result) == sdhm16(a, b)", "I16_MIN <= result <= I16_MAX"],
    returns=PyInt,
)
contract(
    "ethosu.vela.fp_math:shift_left32", props=["C19"],
    variants={k: dict(a=t, offset=TInt(lo=0, hi=31)) for k, t in dict(INT_TYPES, **{"np.int32": I32}).items()},
    requires=["I32_MIN <= a <= I32_MAX"],
    ensures=["int(result) == sat32(a * 2**offset)"],
    returns=PyInt, max_shift=31,
)
contract(
    "ethosu.vela.fp_math:shift_left16", props=["C19"],
    variants={k: dict(a=t, offset=TInt(lo=0, hi=30)) for k, t in INT16_TYPES.items()},
    requires=["I16_MIN <= a <= I16_MAX"],
    ensures=["int(result) == sat16(a * 2**offset)"],
    returns=PyInt, max_shift=30,
)
contract(
    "ethosu.vela.fp_math:downscale_multiplier_int32_to_int16", props=["C19"],
    variants={k: dict(a=t) for k, t in INT_TYPES.items()},
    requires=["I32_MIN <= a <= I32_MAX"],
    # TFLite DownScaleInt32ToInt16Multiplier: saturating (a + 2**15) >> 16
    ensures=["int(result) == (I16_MAX if a >= I32_MAX - 2**15 else (a + 2**15) >> 16)", "I16_MIN <= result <= I16_MAX"],
    returns=PyInt,
)
# symbolic exponents are split into one variant per value (finite domain 0..31, covered exhaustively)
contract(
    "ethosu.vela.fp_math:rounding_divide_by_pot", props=["C19"],
    variants={"%s,e=%d" % (k, e): dict(x=t, exponent=TConst(e)) for k, t in dict(INT_TYPES, **{"np.int32": I32}).items() for e in range(0, 32)},
    requires=["I32_MIN <= x <= I32_MAX", "0 <= exponent <= 31"],
    ensures=["int(result) == rdbp(x, exponent)", "int(result) == rdbp_math(x, exponent)"],
    returns=PyInt,
)
contract(
    "ethosu.vela.fp_math:saturating_rounding_multiply_by_pot", props=["C19"],
    variants={"%s,e=%d" % (k, e): dict(x=t, exponent=TConst(e)) for k, t in dict(INT_TYPES, **{"np.int32": I32}).items() for e in range(0, 31)},
    requires=["I32_MIN <= x <= I32_MAX", "0 <= exponent <= 30"],
    ensures=["int(result) == sat32(x * 2**exponent)"],
    returns=PyInt,
)
contract(
    "ethosu.vela.fp_math:rescale", props=["C19"],
    variants={"%s,%d->%d" % (k, s_, d): dict(integer_bits_src=TConst(s_), integer_bits_dst=TConst(d), x=t)
              for k, t in dict(INT_TYPES, **{"np.int32": I32}).items() for (s_, d) in ((5, 0), (0, 5), (0, 0), (12, 0))},
    requires=["I32_MIN <= x <= I32_MAX", "(integer_bits_src, integer_bits_dst) in ((5, 0), (0, 5), (0, 0), (12, 0))"],
    ensures=["implies(integer_bits_src < integer_bits_dst, int(result) == rdbp(x, integer_bits_dst - integer_bits_src))",
             "implies(integer_bits_src >= integer_bits_dst, int(result) == sat32(x * 2**(integer_bits_src - integer_bits_dst)))"],
    returns=PyInt,
)


@spec_fn
def mbqm(x, scale, shift):
    """TFLite MultiplyByQuantizedMultiplier(x, quantized_multiplier, shift') with Vela's shift convention
    (shift = 31 - shift'): left shift, SRDHM, rounding right shift."""
    s = 31 - shift
    return rdbp(srdhm32(x * 2**(s if s > 0 else 0), scale), (-s if s < 0 else 0))


contract(
    "ethosu.vela.fp_math:multiply_by_quantized_multiplier", props=["C19"],
    variants={"%s,shift=%d" % (k, sh): dict(x=t, scale=TInt(lo=0, hi=I32_MAX), shift=TConst(sh)) for k, t in INT_TYPES.items() for sh in range(0, 63)},
    # reference precondition: the left-shifted operand must fit int32 (UB otherwise in the reference)
    requires=["0 <= shift <= 62", "0 <= scale <= I32_MAX", "I32_MIN <= x * 2**(31 - shift if shift < 31 else 0) <= I32_MAX"],
    ensures=["int(result) == mbqm(x, scale, shift)", "I32_MIN <= int(result) <= I32_MAX"],
    returns=PyInt,
    # symbolic shift at call sites: covered by the exhaustive constant variants shift = 0..62
    call_variants={"%s,shift=sym" % k: dict(x=t, scale=TInt(lo=0, hi=I32_MAX), shift=TInt(lo=0, hi=62)) for k, t in INT_TYPES.items()},
)


# ---- exponential (gemmlowp exp_on_interval_between_negative_one_quarter_and_0_excl / exp_on_negative_values) ------------
@spec_fn
def exp_interval_ref(a):
    """gemmlowp fixedpoint.h, F = FixedPoint<int32, 0>; constants are gemmlowp's."""
    constant_term = 1895147668          # exp(-1/8) in Q0.31
    constant_1_over_3 = 715827883       # 1/3 in Q0.31
    x = a + 2**28                       # a + 1/8
    x2 = srdhm32(x, x)
    x3 = srdhm32(x2, x)
    x4 = srdhm32(x2, x2)
    x4_over_4 = rdbp(x4, 2)
    poly = rdbp(srdhm32(x4_over_4 + x3, constant_1_over_3) + x2, 1)
    return constant_term + srdhm32(constant_term, x + poly)


contract(
    "ethosu.vela.fp_math:exp_on_interval_between_negative_one_quarter_and_0_excl", props=["C19"],
    variants={"int": dict(a=PyInt), "np.int32": dict(a=I32), "np.int64": dict(a=I64)},
    requires=["-2**29 <= a < 0"],
    ensures=["int(result) == exp_interval_ref(a)", "0 < result <= I32_MAX"],
    returns=PyInt,
)


@spec_fn
def exp_neg_ref(a):
    """gemmlowp exp_on_negative_values for InputF = FixedPoint<int32, 5> (Q5.26), result Q0.31."""
    if a == 0:
        return I32_MAX
    one_quarter = 2**24
    a_mod = (a & (one_quarter - 1)) - one_quarter
    result = exp_interval_ref(sat32(a_mod * 2**5))
    remainder = a_mod - a
    for exponent, multiplier in ((-2, 1672461947), (-1, 1302514674), (0, 790015084), (1, 290630308), (2, 39332535), (3, 720401), (4, 242)):
        if remainder & (1 << (26 + exponent)):
            result = srdhm32(result, multiplier)
    return result


contract(
    "ethosu.vela.fp_math:exp_on_negative_values", props=["C19"],
    variants={"int": dict(a=PyInt), "np.int64": dict(a=I64)},
    requires=["I32_MIN <= a <= 0"],
    ensures=["int(result) == exp_neg_ref(a)", "0 <= result <= I32_MAX"],
    returns=PyInt,
)
