"""Contracts for ethosu/vela/scaling.py (property C09)."""
import math

import numpy as np

from pyvc.contracts import contract, implies, bitlen  # noqa: F401
from pyvc.values import *  # noqa: F401,F403


# ---- spec functions (written from the property text / TFLite reference, not from the code) -------------
def sig53(scale):
    """The 53-bit integer significand M of a positive float: scale == M * 2**(e-53), 2**52 <= M < 2**53."""
    return int(math.frexp(scale)[0] * 2 ** 53)


def exp_of(scale):
    return math.frexp(scale)[1]


def tflite_q31(scale):
    """TFLite QuantizeMultiplier, before its 2**31 renormalisation: round-half-away(m * 2**31) for m in [0.5,1)."""
    return (sig53(scale) + 2 ** 21) >> 22


FLOAT_VARIANTS = {"float": dict(scale=F64), "np.float64": dict(scale=NpF64), "np.float32": dict(scale=F32)}

contract(
    "ethosu.vela.numeric_util:round_away_zero", props=["C09", "C19"],
    variants={"float": dict(f=F64), "np.float32": dict(f=F32)},
    requires=["math.isfinite(f)"],
    # f + 0.5 must be exact up to the final rounding: |f| below 2**(mantissa bits - 1)
    variant_requires={"float": ["abs(f) < 2.0 ** 52"], "np.float32": ["abs(f) < 2.0 ** 23"]},
    ensures=[
        # result is integral, and is f rounded half away from zero
        "result == np.trunc(result)",
        "abs(result - f) <= 0.5",
        "implies(f >= 0, result >= f - 0.5 and (result - f < 0.5 or result - f == 0.5))",
        "implies(abs(result - f) == 0.5, abs(result) > abs(f))",
    ],
    always_inline=True, timeout_ms=150000,   # bit-precise FloatingPoint obligations: 20-45 s each on this machine
)

contract(
    "ethosu.vela.scaling:quantise_scale", props=["C09"], variants=FLOAT_VARIANTS, timeout_ms=150000,
    requires=["math.isfinite(scale)", "scale > 0"],
    ensures=[
        # in range: exact TFLite multiplier, shift = 31 - exponent
        "implies(-32 <= exp_of(scale) <= 31, result[1] == 31 - exp_of(scale) and result[0] == tflite_q31(scale))",
        "implies(-32 <= exp_of(scale) <= 31, 0 <= result[1] <= 63 and 2**30 <= result[0] <= 2**31)",
        # relative error <= 2**-31:  |mult * 2**22 - M| <= 2**21  with  M >= 2**52
        "implies(-32 <= exp_of(scale) <= 31, abs(result[0] * 2**22 - sig53(scale)) * 2 <= 2**22 and sig53(scale) >= 2**52)",
        # out of range: zero multiplier, never a wrapped shift
        "implies(not (-32 <= exp_of(scale) <= 31), result[0] == 0 and result[1] == 16)",
    ],
    returns=TTuple(PyInt, PyInt),
)


# ---------------------------------------------------------------------------------------------------------
def q_ref(x):
    """Reference quantisation of a positive finite scale (TFLite QuantizeMultiplier; (0, 16) out of range)."""
    return (tflite_q31(x), 31 - exp_of(x)) if -32 <= exp_of(x) <= 31 else (0, 16)


contract(
    "ethosu.vela.scaling:reduced_quantise_scale", props=["C09"], variants=FLOAT_VARIANTS,
    requires=["math.isfinite(scale)", "scale > 0"],
    ensures=[
        # representable reduced form: shift - 16 in [0, 47]
        "implies(-32 <= exp_of(scale) <= 15, result[1] == 15 - exp_of(scale) and 0 <= result[1] <= 47)",
        "implies(-32 <= exp_of(scale) <= 15, result[0] == min(32767, (tflite_q31(scale) + 2**15) >> 16) and 2**14 <= result[0] <= 32767)",
        # relative error <= 2**-14:  |red * 2**38 - M| <= 2**38  with M >= 2**52
        "implies(-32 <= exp_of(scale) <= 15, abs(result[0] * 2**38 - sig53(scale)) <= 2**38)",
        # otherwise: zero multiplier and a shift that fits the 6-bit field (never negative / wrapped)
        "implies(not (-32 <= exp_of(scale) <= 15), result[0] == 0 and 0 <= result[1] <= 63)",
    ],
    returns=TTuple(PyInt, PyInt),
)

# ---- average pool divisor ---------------------------------------------------------------------------------
# exact closed form for every window size and rescale_bits
contract(
    "ethosu.vela.scaling:quantise_pooling_scale", props=["C09"],
    variants=dict(
        [("closed_form", dict(nr_kernel_elements=TInt(lo=1, hi=65536), rescale_bits=TInt(lo=-31, hi=15), a=PyInt))]
        # division lemma, one variant per k = bitlen(n - 1): 2**(k-1) < n <= 2**k ; `a` is a ghost accumulator
        + [("k=%d" % k, dict(nr_kernel_elements=TInt(lo=(1 << (k - 1)) + 1 if k > 0 else 1, hi=1 << k), rescale_bits=TConst(0), a=PyInt))
           for k in range(0, 17)]
    ),
    max_shift=80,
    # the function's own assert, as the precondition (call sites: rescale_bits < 0 only for 1x1 kernels)
    requires=["(31 - rescale_bits) + bitlen(nr_kernel_elements - 1) < 64"],
    ensures=[
        "result[1] == (31 - rescale_bits) + bitlen(nr_kernel_elements - 1)",
        "result[0] == (2**result[1] + 2**bitlen(nr_kernel_elements - 1)) // nr_kernel_elements",
        "0 <= result[1] < 64",
        # the pair divides exactly (round-half-up) for every accumulator below 2**30
        "implies(rescale_bits == 0 and 0 <= a < 2**30, (a * result[0] + 2**(result[1] - 1)) >> result[1] == (2 * a + nr_kernel_elements) // (2 * nr_kernel_elements))",
    ],
    variant_requires={"closed_form": ["a == 0"]},
    returns=TTuple(PyInt, PyInt),
    assumptions=["negative accumulators: the hardware applies the same rounding to the magnitude (symmetric), not modelled"],
)


# ---- D2 (known finding): the literal claim "for every accumulator a 16-bit window can produce" is false for
# accumulators >= 2**30; z3 leaves the nonlinear obligation over a <= 32767*n undecided, so the fixed witness is
# re-evaluated natively on every run (bounded stand-in, never counted as proved).
def _d2_witness(tier, seed):
    from pyvc import replay as _rp
    from ethosu.vela.scaling import quantise_pooling_scale
    n, a = 135 * 247, 1092598942  # a 135x247 window of int16 values near full scale
    scale, shift = quantise_pooling_scale(n)
    got = (a * scale + (1 << (shift - 1))) >> shift
    want = (2 * a + n) // (2 * n)
    out = dict(name="quantise_pooling_scale 16-bit window witness", bound="1 fixed input (n=135*247=33345, a=1092598942 <= 32767*n)", cases=1,
               label="bounded", violations=[], known_lines=[])
    if got != want:
        _rp.report_bounded_finding(
            out, "C09", "D2", "quantise_pooling_scale(135*247): accumulator 1092598942 (>= 2**30, reachable by a 16-bit "
            "135x247 window) scales to %d, round-half-up division gives %d" % (got, want), dict(n=n, a=a, scale=scale, shift=shift))
    return out


from pyvc import replay as _rp  # noqa: E402
_rp.BOUNDED_HOOKS.setdefault("C09", []).append(_d2_witness)


# ---- elementwise scale derivations: the TFLite reference computes them in DOUBLE precision from the (float32) tensor scales -------
# (reference: tensorflow/lite/kernels/mul.cc, add.cc: real multipliers are products / quotients of double(scale) values)
SCALE_TRIPLES = {
    "np.float32": dict(a=F32, b=F32, c=F32),       # what the compiler passes (scale_f32 from the TFLite reader)
    "np.float64": dict(a=NpF64, b=NpF64, c=NpF64),
    "float": dict(a=F64, b=F64, c=F64),            # external API users
}


def _triple(names):
    return {k: dict(zip(names, v.values())) for k, v in SCALE_TRIPLES.items()}


def twice_max(a, b):
    return 2 * max(np.double(a), np.double(b))


def real_mul(s1, s2, s_out):
    """real multiplier of an elementwise multiplication, in double precision"""
    return np.double(s1) * np.double(s2) / np.double(s_out)


def real_out(s1, s2, s_out, shift):
    """real output multiplier of an elementwise add/sub whose operands were brought to the scale 2 * max(s1, s2) / 2**shift"""
    return twice_max(s1, s2) / (np.double(s_out) * 2**shift)


contract(
    "ethosu.vela.scaling:elementwise_mul_scale", props=["C09"],
    variants=dict(_triple(["input_scale", "input2_scale", "output_scale"]),
                  # LeakyReLU table generation: (double, 1, double) and (double, alpha: python float, double)
                  **{"np.float64,1,np.float64": dict(input_scale=NpF64, input2_scale=TConst(1), output_scale=NpF64),
                     "np.float64,float,np.float64": dict(input_scale=NpF64, input2_scale=F64, output_scale=NpF64)}),
    requires=["math.isfinite(input_scale) and math.isfinite(np.double(input2_scale)) and math.isfinite(output_scale)",
              "input_scale > 0 and input2_scale > 0 and output_scale > 0",
              # the real multiplier is a normal positive double (no overflow / underflow to zero)
              "math.isfinite(np.double(input_scale) * np.double(input2_scale) / np.double(output_scale))",
              "np.double(input_scale) * np.double(input2_scale) / np.double(output_scale) > 0"],
    # quantised (TFLite QuantizeMultiplier) real multiplier s1 * s2 / s_out, evaluated in double precision
    ensures=["implies(-32 <= exp_of(real_mul(input_scale, input2_scale, output_scale)) <= 31,"
             " result[0] == tflite_q31(real_mul(input_scale, input2_scale, output_scale)) and result[1] == 31 - exp_of(real_mul(input_scale, input2_scale, output_scale)))",
             "implies(not (-32 <= exp_of(real_mul(input_scale, input2_scale, output_scale)) <= 31), result[0] == 0 and result[1] == 16)"],
    returns=TTuple(PyInt, PyInt), float_abstract=True,
)


# simplified_/advanced_elementwise_add_sub_scale: not under contract in this revision (their general float products and quotients put
# every path query into z3's bit-blasted FloatingPoint procedure: no obligation was decided within 10 minutes); the double-precision
# widening they share with elementwise_mul_scale is covered only by the mul contract above and by the D4 regression witness below.


def _d4_witness(tier, seed):
    """Fixed witness for finding D4 (fixed in /repo): float32 tensor scales must be widened to double before the derivation."""
    from ethosu.vela import scaling as _sc
    out = dict(name="elementwise add/sub scale derivations: float32 scales give the double-precision (TFLite reference) multipliers",
               label="bounded", bound="3 fixed scale triples x {mul, simplified, advanced} (native evaluation, np.float32 arguments vs np.float64 arguments)",
               cases=0, violations=[], known_lines=[])
    bad = []
    for (a, b, c) in ((0.1, 0.2, 0.3), (0.007874016, 0.003921569, 0.0627451), (1.5e-3, 2.5e-2, 7.1e-1)):
        fa, fb, fc = np.float32(a), np.float32(b), np.float32(c)
        da, db, dc = np.double(fa), np.double(fb), np.double(fc)
        for name, f, g in (("elementwise_mul_scale", _sc.elementwise_mul_scale(fa, fb, fc), _sc.elementwise_mul_scale(da, db, dc)),
                           ("simplified_elementwise_add_sub_scale", _sc.simplified_elementwise_add_sub_scale(fa, fb, fc)[2:],
                            _sc.simplified_elementwise_add_sub_scale(da, db, dc)[2:]),
                           ("advanced_elementwise_add_sub_scale", _sc.advanced_elementwise_add_sub_scale(fa, fb, fc, 8),
                            _sc.advanced_elementwise_add_sub_scale(da, db, dc, 8))):
            out["cases"] += 1
            if tuple(f) != tuple(g):
                bad.append("%s(np.float32 %r) == %r but the double-precision reference gives %r" % (name, (a, b, c), tuple(f), tuple(g)))
    if bad:
        _rp.report_bounded_finding(out, "C09", "D4", "; ".join(bad[:3]), dict(failures=bad))
    return out


_rp.BOUNDED_HOOKS.setdefault("C09", []).append(_d4_witness)
