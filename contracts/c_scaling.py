"""Contracts for ethosu/vela/scaling.py (property C09)."""
import math

import numpy as np

from pyvc.contracts import contract, implies, bitlen  # noqa: F401
from pyvc.values import *  # noqa: F401,F403


# ---- spec functions (written from the property text / TFLite reference, not from the code) -------------
def sig53(scale):
    """The 53-bit integer significand M of a positive float: scale == M * 2**(e-53), 2**52 <= M < 2**53."""
    return int(math.frexp(scale)[0] * 2 ** 53)


def exp_of(scale):
    return math.frexp(scale)[1]


def tflite_q31(scale):
    """TFLite QuantizeMultiplier, before its 2**31 renormalisation: round-half-away(m * 2**31) for m in [0.5,1)."""
    return (sig53(scale) + 2 ** 21) >> 22


FLOAT_VARIANTS = {"float": dict(scale=F64), "np.float64": dict(scale=NpF64), "np.float32": dict(scale=F32)}

contract(
    "ethosu.vela.numeric_util:round_away_zero", props=["C09", "C19"],
    variants={"float": dict(f=F64), "np.float32": dict(f=F32)},
    requires=["math.isfinite(f)"],
    # f + 0.5 must be exact up to the final rounding: |f| below 2**(mantissa bits - 1)
    variant_requires={"float": ["abs(f) < 2.0 ** 52"], "np.float32": ["abs(f) < 2.0 ** 23"]},
    ensures=[
        # result is integral, and is f rounded half away from zero
        "result == np.trunc(result)",
        "abs(result - f) <= 0.5",
        "implies(f >= 0, result >= f - 0.5 and (result - f < 0.5 or result - f == 0.5))",
        "implies(abs(result - f) == 0.5, abs(result) > abs(f))",
    ],
    always_inline=True,
)

contract(
    "ethosu.vela.scaling:quantise_scale", props=["C09"], variants=FLOAT_VARIANTS,
    requires=["math.isfinite(scale)", "scale > 0"],
    ensures=[
        # in range: exact TFLite multiplier, shift = 31 - exponent
        "implies(-32 <= exp_of(scale) <= 31, result[1] == 31 - exp_of(scale) and result[0] == tflite_q31(scale))",
        "implies(-32 <= exp_of(scale) <= 31, 0 <= result[1] <= 63 and 2**30 <= result[0] <= 2**31)",
        # relative error <= 2**-31:  |mult * 2**22 - M| <= 2**21  with  M >= 2**52
        "implies(-32 <= exp_of(scale) <= 31, abs(result[0] * 2**22 - sig53(scale)) * 2 <= 2**22 and sig53(scale) >= 2**52)",
        # out of range: zero multiplier, never a wrapped shift
        "implies(not (-32 <= exp_of(scale) <= 31), result[0] == 0 and result[1] == 16)",
    ],
    returns=TTuple(PyInt, PyInt),
)


# ---------------------------------------------------------------------------------------------------------
def q_ref(x):
    """Reference quantisation of a positive finite scale (TFLite QuantizeMultiplier; (0, 16) out of range)."""
    return (tflite_q31(x), 31 - exp_of(x)) if -32 <= exp_of(x) <= 31 else (0, 16)


contract(
    "ethosu.vela.scaling:reduced_quantise_scale", props=["C09"], variants=FLOAT_VARIANTS,
    requires=["math.isfinite(scale)", "scale > 0"],
    ensures=[
        # representable reduced form: shift - 16 in [0, 47]
        "implies(-32 <= exp_of(scale) <= 15, result[1] == 15 - exp_of(scale) and 0 <= result[1] <= 47)",
        "implies(-32 <= exp_of(scale) <= 15, result[0] == min(32767, (tflite_q31(scale) + 2**15) >> 16) and 2**14 <= result[0] <= 32767)",
        # relative error <= 2**-14:  |red * 2**38 - M| <= 2**38  with M >= 2**52
        "implies(-32 <= exp_of(scale) <= 15, abs(result[0] * 2**38 - sig53(scale)) <= 2**38)",
        # otherwise: zero multiplier and a shift that fits the 6-bit field (never negative / wrapped)
        "implies(not (-32 <= exp_of(scale) <= 15), result[0] == 0 and 0 <= result[1] <= 63)",
    ],
    returns=TTuple(PyInt, PyInt),
)

# ---- average pool divisor ---------------------------------------------------------------------------------
# exact closed form for every window size and rescale_bits
contract(
    "ethosu.vela.scaling:quantise_pooling_scale", props=["C09"],
    variants=dict(
        [("closed_form", dict(nr_kernel_elements=TInt(lo=1, hi=65536), rescale_bits=TInt(lo=-31, hi=15), a=PyInt))]
        # division lemma, one variant per k = bitlen(n - 1): 2**(k-1) < n <= 2**k ; `a` is a ghost accumulator
        + [("k=%d" % k, dict(nr_kernel_elements=TInt(lo=(1 << (k - 1)) + 1 if k > 0 else 1, hi=1 << k), rescale_bits=TConst(0), a=PyInt))
           for k in range(0, 17)]
    ),
    max_shift=80,
    # the function's own assert, as the precondition (call sites: rescale_bits < 0 only for 1x1 kernels)
    requires=["(31 - rescale_bits) + bitlen(nr_kernel_elements - 1) < 64"],
    ensures=[
        "result[1] == (31 - rescale_bits) + bitlen(nr_kernel_elements - 1)",
        "result[0] == (2**result[1] + 2**bitlen(nr_kernel_elements - 1)) // nr_kernel_elements",
        "0 <= result[1] < 64",
        # the pair divides exactly (round-half-up) for every accumulator below 2**30
        "implies(rescale_bits == 0 and 0 <= a < 2**30, (a * result[0] + 2**(result[1] - 1)) >> result[1] == (2 * a + nr_kernel_elements) // (2 * nr_kernel_elements))",
    ],
    variant_requires={"closed_form": ["a == 0"]},
    returns=TTuple(PyInt, PyInt),
    assumptions=["negative accumulators: the hardware applies the same rounding to the magnitude (symmetric), not modelled"],
)


# ---- D2 (known finding): the literal claim "for every accumulator a 16-bit window can produce" is false for
# accumulators >= 2**30; z3 leaves the nonlinear obligation over a <= 32767*n undecided, so the fixed witness is
# re-evaluated natively on every run (bounded stand-in, never counted as proved).
def _d2_witness(tier, seed):
    from pyvc import replay as _rp
    from ethosu.vela.scaling import quantise_pooling_scale
    n, a = 135 * 247, 1092598942  # a 135x247 window of int16 values near full scale
    scale, shift = quantise_pooling_scale(n)
    got = (a * scale + (1 << (shift - 1))) >> shift
    want = (2 * a + n) // (2 * n)
    out = dict(name="quantise_pooling_scale 16-bit window witness", bound="1 fixed input (n=135*247=33345, a=1092598942 <= 32767*n)", cases=1,
               label="bounded", violations=[], known_lines=[])
    if got != want:
        _rp.report_bounded_finding(
            out, "C09", "D2", "quantise_pooling_scale(135*247): accumulator 1092598942 (>= 2**30, reachable by a 16-bit "
            "135x247 window) scales to %d, round-half-up division gives %d" % (got, want), dict(n=n, a=a, scale=scale, shift=shift))
    return out


from pyvc import replay as _rp  # noqa: E402
_rp.BOUNDED_HOOKS.setdefault("C09", []).append(_d2_witness)
