"""Contracts for ethosu/vela/scaling.py (property C09)."""
import math

import numpy as np

from pyvc.contracts import contract, implies, bitlen  # noqa: F401
from pyvc.values import *  # noqa: F401,F403


# ---- spec functions (written from the property text / TFLite reference, not from the code) -------------
def sig53(scale):
    """The 53-bit integer significand M of a positive float: scale == M * 2**(e-53), 2**52 <= M < 2**53."""
    return int(math.frexp(scale)[0] * 2 ** 53)


def exp_of(scale):
    return math.frexp(scale)[1]


def tflite_q31(scale):
    """TFLite QuantizeMultiplier, before its 2**31 renormalisation: round-half-away(m * 2**31) for m in [0.5,1)."""
    return (sig53(scale) + 2 ** 21) >> 22


FLOAT_VARIANTS = {"float": dict(scale=F64), "np.float64": dict(scale=NpF64), "np.float32": dict(scale=F32)}

contract(
    "ethosu.vela.numeric_util:round_away_zero", props=["C09", "C19"],
    variants={"float": dict(f=F64), "np.float32": dict(f=F32)},
    requires=["math.isfinite(f)"],
    # f + 0.5 must be exact up to the final rounding: |f| below 2**(mantissa bits - 1)
    variant_requires={"float": ["abs(f) < 2.0 ** 52"], "np.float32": ["abs(f) < 2.0 ** 23"]},
    ensures=[
        # result is integral, and is f rounded half away from zero
        "result == np.trunc(result)",
        "abs(result - f) <= 0.5",
        "implies(f >= 0, result >= f - 0.5 and (result - f < 0.5 or result - f == 0.5))",
        "implies(abs(result - f) == 0.5, abs(result) > abs(f))",
    ],
    always_inline=True,
)

contract(
    "ethosu.vela.scaling:quantise_scale", props=["C09"], variants=FLOAT_VARIANTS,
    requires=["math.isfinite(scale)", "scale > 0"],
    ensures=[
        # in range: exact TFLite multiplier, shift = 31 - exponent
        "implies(-32 <= exp_of(scale) <= 31, result[1] == 31 - exp_of(scale) and result[0] == tflite_q31(scale))",
        "implies(-32 <= exp_of(scale) <= 31, 0 <= result[1] <= 63 and 2**30 <= result[0] <= 2**31)",
        # relative error <= 2**-31:  |mult * 2**22 - M| <= 2**21  with  M >= 2**52
        "implies(-32 <= exp_of(scale) <= 31, abs(result[0] * 2**22 - sig53(scale)) * 2 <= 2**22 and sig53(scale) >= 2**52)",
        # out of range: zero multiplier, never a wrapped shift
        "implies(not (-32 <= exp_of(scale) <= 31), result[0] == 0 and result[1] == 16)",
    ],
    returns=TTuple(PyInt, PyInt),
)
