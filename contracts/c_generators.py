"""Contracts for the register generators (property C06: the decoded register file equals the operation's fields; every
field fits its register; alignment checks) in register_command_stream_generator.py."""
import numpy as np

from ethosu.vela import register_command_stream_generator as rg
from ethosu.vela import register_command_stream_util as ru
from ethosu.vela.api import (NpuActivation, NpuActivationOp, NpuAddressRange, NpuBlockTraversal, NpuDataType, NpuFeatureMap, NpuKernel,
                             NpuLayout, NpuPadding, NpuQuantization, NpuRoundingMode, NpuShape3D, NpuTileBox)
from ethosu.vela.ethos_u55_regs.ethos_u55_regs import cmd0, cmd1

from pyvc.contracts import REGISTRY, contract, implies  # noqa: F401
from pyvc.spec import Uninterp
from pyvc.values import *  # noqa: F401,F403
from contracts.c_emitter import EMIT, GHOST, emit_inv, STREAM_FRAME  # noqa: F401

REGISTRY.declare_struct(NpuActivation)

# ---- legal operation fields (api.py field comments, SUPPORTED_OPS.md ranges, NpuDataType ranges) -------------------------
DIM = TInt(lo=1, hi=65536)
SHAPE3 = TTuple(DIM, DIM, DIM, cls=NpuShape3D)
ADDR = TInt(lo=0, hi=2**40 - 1)
TILES = TTuple(TInt(lo=0, hi=65536), TInt(lo=0, hi=65536), TInt(lo=0, hi=65536), TTuple(ADDR, ADDR, ADDR, ADDR), cls=NpuTileBox)
QUANT = TTuple(TOpt(F64), TInt(lo=-32768, hi=65535), cls=NpuQuantization)
PADDING = TTuple(TInt(lo=0, hi=127), TInt(lo=0, hi=127), TInt(lo=0, hi=128), TInt(lo=0, hi=128), cls=NpuPadding)
FM = TStruct(NpuFeatureMap, data_type=TEnum(NpuDataType), region=TInt(lo=0, hi=7), shape=SHAPE3, tiles=TILES,
             quantization=TOpt(QUANT), layout=TEnum(NpuLayout), strides=TOpt(TTuple(TInt(lo=0, hi=2**40 - 1), TInt(lo=0, hi=2**40 - 1), TInt(lo=0, hi=2**40 - 1), cls=NpuShape3D)))
ACT = TStruct(NpuActivation, op_type=TEnum(NpuActivationOp), min=TOpt(F64), max=TOpt(F64), lookup_table_index=TInt(lo=0, hi=7))


def D(emit, reg):
    """the 16-bit parameter a decoder of the stream holds for register `reg`"""
    return emit.decoded[reg][0]


def D_addr(emit, reg):
    """the (up to 48-bit) address / offset a decoder holds for cmd1 register `reg`: param * 2**32 + payload"""
    return emit.decoded[reg][0] * 2**32 + emit.decoded[reg][1]


def s16(v):
    """two's complement reading of a 16-bit register value"""
    return v - 2**16 if v >= 2**15 else v


COMMON = dict(props=["C06"], modifies=["emit.cmd_stream", "emit.offset"], **GHOST)
KEEP = ["emit_inv(emit)", "len(emit.cmd_stream) >= old(len(emit.cmd_stream))",
        "all(emit.cmd_stream[i] == old(emit.cmd_stream)[i] for i in range(old(len(emit.cmd_stream))))"]


def mm(*regs):
    """modifies_maps entries for the registers a generator writes (decoder view + the remembering register machine)"""
    out = []
    for r in regs:
        out.append(("emit.decoded", r))
        out.append(("machine_of(emit, %s).registers[0]" % r, r))
    return out


from contracts.c_emitter import machine_of  # noqa: E402,F401

contract(
    "ethosu.vela.register_command_stream_generator:generate_padding", variants={"default": dict(emit=EMIT, padding=PADDING)},
    requires=["emit_inv(emit)"],
    ensures=KEEP + ["D(emit, cmd0.NPU_SET_IFM_PAD_TOP) == padding.top", "D(emit, cmd0.NPU_SET_IFM_PAD_LEFT) == padding.left",
                    "D(emit, cmd0.NPU_SET_IFM_PAD_BOTTOM) == padding.bottom", "D(emit, cmd0.NPU_SET_IFM_PAD_RIGHT) == padding.right"],
    modifies_maps=mm("cmd0.NPU_SET_IFM_PAD_TOP", "cmd0.NPU_SET_IFM_PAD_LEFT", "cmd0.NPU_SET_IFM_PAD_BOTTOM", "cmd0.NPU_SET_IFM_PAD_RIGHT"),
    **COMMON,
)

FM_PREFIX = {"ifm": "IFM", "ifm2": "IFM2", "ofm": "OFM"}      # register group of each feature map


def _tile_regs(g):
    return ("cmd0.NPU_SET_%s_HEIGHT0_M1" % g, "cmd0.NPU_SET_%s_HEIGHT1_M1" % g, "cmd0.NPU_SET_%s_WIDTH0_M1" % g)


contract(
    "ethosu.vela.register_command_stream_generator:generate_tiles",
    variants={v: dict(emit=EMIT, tile_cmds=TConst(tuple(eval(r) for r in _tile_regs(g))), tiles=TILES) for v, g in FM_PREFIX.items()},
    # a used feature map has tile 0 of at least 1x1; height_1 == 0 means tile 1 unused and encodes as 0xFFFF (-1)
    requires=["emit_inv(emit)", "tiles.height_0 >= 1", "tiles.width_0 >= 1"],
    ensures=KEEP,
    variant_ensures={v: ["D(emit, %s) == tiles.height_0 - 1" % _tile_regs(g)[0],
                         "s16(D(emit, %s)) == tiles.height_1 - 1 or D(emit, %s) == tiles.height_1 - 1" % (_tile_regs(g)[1], _tile_regs(g)[1]),
                         "D(emit, %s) == tiles.width_0 - 1" % _tile_regs(g)[2]] for v, g in FM_PREFIX.items()},
    variant_modifies_maps={v: mm(*_tile_regs(g)) for v, g in FM_PREFIX.items()},
    **COMMON,
)

KERNEL = TStruct(NpuKernel, width=TInt(lo=1, hi=65536), height=TInt(lo=1, hi=256), stride_x=TInt(lo=1, hi=4), stride_y=TInt(lo=1, hi=4),
                 dilation_x=TInt(lo=1, hi=2), dilation_y=TInt(lo=1, hi=2))


# (lemma_stride_roundtrip below proves unpack_stride(pack_stride(f)) == f for every legal f)
def unpack_stride(w):
    """fields of the KERNEL_STRIDE register: (stride_x, stride_y, dilation_x, dilation_y, part_kernel_first)"""
    return (1 + (w % 2) + 2 * ((w // 64) % 8), 1 + ((w // 2) % 2) + 2 * ((w // 512) % 8), 1 + ((w // 8) % 2), 1 + ((w // 16) % 2), (w // 4) % 2)


def pack_stride(stride_x, stride_y, dilation_x, dilation_y, part_kernel_first):
    """KERNEL_STRIDE register layout (register reference): bit 0 / bits 6-8: stride_x - 1 (low bit / extension),
    bit 1 / bits 9-11: stride_y - 1, bit 2: part-kernel-first traversal, bit 3: dilation_x - 1, bit 4: dilation_y - 1"""
    return ((stride_x - 1) % 2 + 2 * ((stride_y - 1) % 2) + 4 * part_kernel_first + 8 * (dilation_x - 1) + 16 * (dilation_y - 1)
            + 64 * ((stride_x - 1) // 2) + 512 * ((stride_y - 1) // 2))


def lemma_stride_roundtrip(stride_x, stride_y, dilation_x, dilation_y, part_kernel_first):
    """Lemma (about the spec only, no /repo code): unpacking the packed stride word gives the fields back."""
    return unpack_stride(pack_stride(stride_x, stride_y, dilation_x, dilation_y, part_kernel_first))


contract(
    "contracts.c_generators:lemma_stride_roundtrip", props=["C06"], lemma=True,
    variants={"sx=%d,sy=%d" % (sx, sy): dict(stride_x=TConst(sx), stride_y=TConst(sy), dilation_x=TInt(lo=1, hi=2), dilation_y=TInt(lo=1, hi=2),
                                             part_kernel_first=TInt(lo=0, hi=1)) for sx in range(1, 5) for sy in range(1, 5)},
    ensures=["result == (stride_x, stride_y, dilation_x, dilation_y, part_kernel_first)"],
)

contract(
    "ethosu.vela.register_command_stream_generator:generate_kernel",
    variants={"default": dict(emit=EMIT, kernel=KERNEL, block_traversal=TEnum(NpuBlockTraversal))},
    # dilated kernel extents that fit the registers (SUPPORTED_OPS: dilated kernel height <= 64, width*height bounded)
    requires=["emit_inv(emit)", "kernel.dilation_y * (kernel.height - 1) < 2**16", "kernel.dilation_x * (kernel.width - 1) < 2**16"],
    ensures=KEEP + [
        "D(emit, cmd0.NPU_SET_KERNEL_HEIGHT_M1) == kernel.dilation_y * (kernel.height - 1)",
        "D(emit, cmd0.NPU_SET_KERNEL_WIDTH_M1) == kernel.dilation_x * (kernel.width - 1)",
        # the packed stride word decodes to exactly the kernel's strides, dilations and traversal (fields do not collide)
        "D(emit, cmd0.NPU_SET_KERNEL_STRIDE) == pack_stride(kernel.stride_x, kernel.stride_y, kernel.dilation_x, kernel.dilation_y,"
        " 1 if block_traversal == NpuBlockTraversal.PART_KERNEL_FIRST else 0)",
    ],
    modifies_maps=mm("cmd0.NPU_SET_KERNEL_HEIGHT_M1", "cmd0.NPU_SET_KERNEL_WIDTH_M1", "cmd0.NPU_SET_KERNEL_STRIDE"),
    **COMMON,
)

contract(
    "ethosu.vela.register_command_stream_generator:generate_block_config",
    variants={"default": dict(emit=EMIT, block_config=SHAPE3)},
    requires=["emit_inv(emit)"],
    ensures=KEEP + ["D(emit, cmd0.NPU_SET_OFM_BLK_HEIGHT_M1) == block_config.height - 1", "D(emit, cmd0.NPU_SET_OFM_BLK_WIDTH_M1) == block_config.width - 1",
                    "D(emit, cmd0.NPU_SET_OFM_BLK_DEPTH_M1) == block_config.depth - 1"],
    modifies_maps=mm("cmd0.NPU_SET_OFM_BLK_HEIGHT_M1", "cmd0.NPU_SET_OFM_BLK_WIDTH_M1", "cmd0.NPU_SET_OFM_BLK_DEPTH_M1"),
    **COMMON,
)

quantise_ext = Uninterp("quantise", PyInt, native=ru.quantise)

contract(
    "ethosu.vela.register_command_stream_generator:generate_activation",
    variants={"default": dict(emit=EMIT, activation=TOpt(ACT), ofm=FM)},
    # legal(op): an explicit clamp bound quantises to a value the 16-bit register can hold (documented use: RELU / RELU6 / RELU_N1_TO_1)
    externals={"ethosu.vela.register_command_stream_util:quantise": lambda eng, args, kw: eng.fresh(TInt(lo=-32768, hi=32767), "quantise")},
    assumptions=["legal(op): quantise(activation.min/max, ofm.quantization) lies in [-32768, 32767] (the float->int quantisation itself is C19/C09 territory)"],
    requires=["emit_inv(emit)"],
    ensures=KEEP + [
        # ACTIVATION_MIN / MAX are signed 16-bit registers: the decoded clamp range lies inside both the register range and the
        # OFM data type's range, and is not inverted by wrap-around when no clamp is requested
        "max(-32768, ofm.data_type.min_value()) <= s16(D(emit, cmd0.NPU_SET_ACTIVATION_MIN)) <= 32767",
        "-32768 <= s16(D(emit, cmd0.NPU_SET_ACTIVATION_MAX)) <= min(32767, ofm.data_type.max_value())",
        "implies(activation is None or (activation.min is None and activation.op_type != NpuActivationOp.TABLE_LOOKUP),"
        " s16(D(emit, cmd0.NPU_SET_ACTIVATION_MIN)) == max(-32768, ofm.data_type.min_value()))",
        "implies(activation is None or (activation.max is None and activation.op_type != NpuActivationOp.TABLE_LOOKUP),"
        " s16(D(emit, cmd0.NPU_SET_ACTIVATION_MAX)) == min(32767, ofm.data_type.max_value()))",
        # activation function selector: table lookups select table 0-7 (16 + index); INT32 OFM forces the I8 range
        "implies(activation is not None and activation.op_type == NpuActivationOp.TABLE_LOOKUP,"
        " D(emit, cmd0.NPU_SET_ACTIVATION) % 4096 == 16 + activation.lookup_table_index)",
        "implies(activation is None or activation.op_type == NpuActivationOp.NONE_OR_RELU, D(emit, cmd0.NPU_SET_ACTIVATION) == 0)",
    ],
    modifies_maps=mm("cmd0.NPU_SET_ACTIVATION", "cmd0.NPU_SET_ACTIVATION_MIN", "cmd0.NPU_SET_ACTIVATION_MAX"),
    **COMMON,
)


# ===== waits and operation codes (C06: waits precede the operation; exactly one NPU_OP word per operation; C04) =========
from ethosu.vela.api import (NpuBlockOperation, NpuConv2DOperation, NpuConvDepthWiseOperation, NpuDmaOperation, NpuElementWiseOp,  # noqa: E402
                             NpuElementWiseOperation, NpuOperation, NpuPoolingOp, NpuPoolingOperation)
from ethosu.vela.register_command_stream_util import Watermark  # noqa: E402

WATERMARK = TTuple(TInt(lo=-1, hi=15), TInt(lo=-1, hi=15), cls=Watermark)


def word0(emit, i):
    return emit.cmd_stream[i][0]


contract(
    "ethosu.vela.register_command_stream_generator:generate_cmd_waits", props=["C06", "C04"],
    variants={"default": dict(emit=EMIT, cmd_waits=WATERMARK)},
    requires=["emit_inv(emit)"],
    ensures=KEEP + [
        # exactly the requested waits are appended (never elided), kernel wait first, each carrying its count on channel 0
        "len(emit.cmd_stream) == old(len(emit.cmd_stream)) + (1 if cmd_waits.npu >= 0 else 0) + (1 if cmd_waits.dma >= 0 else 0)",
        "implies(cmd_waits.npu >= 0, word0(emit, old(len(emit.cmd_stream))) == cmd0.NPU_OP_KERNEL_WAIT.value + cmd_waits.npu * 2**16)",
        "implies(cmd_waits.dma >= 0, word0(emit, len(emit.cmd_stream) - 1) == cmd0.NPU_OP_DMA_WAIT.value + cmd_waits.dma * 2**16)",
    ],
    modifies=["emit.cmd_stream", "emit.offset"], **GHOST,
)

OPCODE_VARIANTS = {
    "dma": dict(emit=EMIT, npu_op=TStruct(NpuDmaOperation, channel=TInt(lo=0, hi=1), mode=TInt(lo=0, hi=1))),
    "conv2d": dict(emit=EMIT, npu_op=TStruct(NpuConv2DOperation)),
    "depthwise": dict(emit=EMIT, npu_op=TStruct(NpuConvDepthWiseOperation)),
    "pooling": dict(emit=EMIT, npu_op=TStruct(NpuPoolingOperation, sub_op_type=TEnum(NpuPoolingOp))),
    "elementwise": dict(emit=EMIT, npu_op=TStruct(NpuElementWiseOperation, sub_op_type=TEnum(NpuElementWiseOp))),
}
KICK = (cmd0.NPU_OP_DMA_START, cmd0.NPU_OP_CONV, cmd0.NPU_OP_DEPTHWISE, cmd0.NPU_OP_POOL, cmd0.NPU_OP_ELEMENTWISE)


def expected_opcode(npu_op):
    return (cmd0.NPU_OP_DMA_START.value if isinstance(npu_op, NpuDmaOperation) else
            cmd0.NPU_OP_CONV.value if isinstance(npu_op, NpuConv2DOperation) else
            cmd0.NPU_OP_DEPTHWISE.value if isinstance(npu_op, NpuConvDepthWiseOperation) else
            cmd0.NPU_OP_POOL.value if isinstance(npu_op, NpuPoolingOperation) else cmd0.NPU_OP_ELEMENTWISE.value)


contract(
    "ethosu.vela.register_command_stream_generator:generate_operation_code", props=["C06"], variants=OPCODE_VARIANTS,
    requires=["emit_inv(emit)"],
    ensures=KEEP + [
        # exactly one word: the kick-off command of the operation's kind (never NPU_OP_STOP, never a wait), with its mode parameter
        "len(emit.cmd_stream) == old(len(emit.cmd_stream)) + 1",
        "word0(emit, len(emit.cmd_stream) - 1) % 2**16 == expected_opcode(npu_op)",
        "word0(emit, len(emit.cmd_stream) - 1) % 2**16 != cmd0.NPU_OP_STOP.value",
        "implies(isinstance(npu_op, NpuDmaOperation), word0(emit, len(emit.cmd_stream) - 1) // 2**16 == npu_op.channel * 16 + npu_op.mode)",
        "implies(isinstance(npu_op, NpuPoolingOperation), word0(emit, len(emit.cmd_stream) - 1) // 2**16 == rg.pooling_op_map[npu_op.sub_op_type])",
        "implies(isinstance(npu_op, NpuElementWiseOperation), word0(emit, len(emit.cmd_stream) - 1) // 2**16 == rg.elementwise_op_map[npu_op.sub_op_type])",
    ],
    modifies=["emit.cmd_stream", "emit.offset", "emit.reg_machine[0].bank_idx", "emit.reg_machine[1].bank_idx"], **GHOST,
)


# ===== feature-map registers =====================================================================================
from contracts.c_rcs_util import default_strides  # noqa: E402
from ethosu.vela.errors import ByteAlignmentError, ByteSizeError  # noqa: E402

def _stride_regs(g):
    return ("cmd1.NPU_SET_%s_STRIDE_C" % g, "cmd1.NPU_SET_%s_STRIDE_Y" % g, "cmd1.NPU_SET_%s_STRIDE_X" % g)


def _stride_clauses(g, fm="fm"):
    c_, y_, x_ = _stride_regs(g)
    return [
        # the three stride registers hold the feature map's strides (explicit ones, else the default layout strides) ...
        "implies(%s.strides is not None, D_addr(emit, %s) == %s.strides.depth and D_addr(emit, %s) == %s.strides.height"
        " and D_addr(emit, %s) == %s.strides.width)" % (fm, c_, fm, y_, fm, x_, fm),
        "implies(%s.strides is None, D_addr(emit, %s) == default_strides(%s).depth and D_addr(emit, %s) == default_strides(%s).height"
        " and D_addr(emit, %s) == default_strides(%s).width)" % (fm, c_, fm, y_, fm, x_, fm),
        # ... and a normal return implies they meet the hardware alignment rules
        "implies(%s.layout == NpuLayout.NHCWB16, D_addr(emit, %s) %% 16 == 0 and D_addr(emit, %s) %% 16 == 0)" % (fm, c_, y_),
        "implies(%s.layout == NpuLayout.NHWC, D_addr(emit, %s) %% %s.data_type.size_in_bytes() == 0"
        " and D_addr(emit, %s) %% %s.data_type.size_in_bytes() == 0)" % (fm, y_, fm, x_, fm),
    ]


contract(
    "ethosu.vela.register_command_stream_generator:generate_strides",
    variants={v: dict(emit=EMIT, fm=FM, stride_c_cmd=TConst(eval(_stride_regs(g)[0])), stride_y_cmd=TConst(eval(_stride_regs(g)[1])),
                      stride_x_cmd=TConst(eval(_stride_regs(g)[2]))) for v, g in FM_PREFIX.items()},
    requires=["emit_inv(emit)", "implies(fm.strides is None, fm.shape.width * fm.shape.depth * 4 * 16 < 2**40)"],
    raises=[(ByteSizeError, None)],
    ensures=KEEP,
    variant_ensures={v: _stride_clauses(g) for v, g in FM_PREFIX.items()},
    variant_modifies_maps={v: mm(*_stride_regs(g)) for v, g in FM_PREFIX.items()},
    **COMMON,
)


def prec_fields(w):
    """IFM/IFM2_PRECISION register: bit 0 signed, bits 2-3 activation precision (0: 8 bit, 1: 16, 2: 32), bit 6 NHCWB16, bits 8-9 scale mode"""
    return (w % 2, (w // 4) % 4, (w // 64) % 2, (w // 256) % 4)


contract(
    "ethosu.vela.register_command_stream_generator:generate_ifm_precision",
    variants={"ifm": dict(emit=EMIT, fm=FM, op_to_scale=TInt(lo=0, hi=2), precision_cmd=TConst(cmd0.NPU_SET_IFM_PRECISION))},
    requires=["emit_inv(emit)"],
    ensures=KEEP + ["prec_fields(D(emit, cmd0.NPU_SET_IFM_PRECISION)) == (1 if fm.data_type.is_signed() else 0, {8: 0, 16: 1, 32: 2}[fm.data_type.size_in_bits()],"
                    " 1 if fm.layout == NpuLayout.NHCWB16 else 0, op_to_scale)",
                    "D(emit, cmd0.NPU_SET_IFM_PRECISION) < 2**10"],
    modifies_maps=mm("cmd0.NPU_SET_IFM_PRECISION"), **COMMON,
)

ROUNDING = TEnum(NpuRoundingMode)
OFM_OP = TStruct(NpuBlockOperation, ofm=FM, rounding_mode=ROUNDING)


def ofm_prec_fields(w):
    """OFM_PRECISION: bit 0 signed, bits 1-2 precision, bit 6 NHCWB16, bit 8 global scale, bits 14-15 rounding mode"""
    return (w % 2, (w // 2) % 4, (w // 64) % 2, (w // 256) % 2, (w // 16384) % 4)


contract(
    "ethosu.vela.register_command_stream_generator:generate_ofm_precision",
    variants={"default": dict(emit=EMIT, npu_op=OFM_OP, use_global_scale=PyBool)},
    requires=["emit_inv(emit)"],
    ensures=KEEP + ["ofm_prec_fields(D(emit, cmd0.NPU_SET_OFM_PRECISION)) == (1 if npu_op.ofm.data_type.is_signed() else 0,"
                    " {8: 0, 16: 1, 32: 2}[npu_op.ofm.data_type.size_in_bits()], 1 if npu_op.ofm.layout == NpuLayout.NHCWB16 else 0,"
                    " 1 if use_global_scale else 0, rg.rounding_mode_map[npu_op.rounding_mode])"],
    modifies_maps=mm("cmd0.NPU_SET_OFM_PRECISION"), **COMMON,
)

RANGE = TTuple(TInt(lo=0, hi=7), TInt(lo=0, hi=2**40 - 1), TInt(lo=0, hi=2**32 - 1), cls=NpuAddressRange)
ARCH_NCORES = TStruct("ArchitectureFeatures", ncores=TInt(lo=1, hi=2))

for _name, _fn, _region, _regs in (
    ("weights", "generate_weights", "cmd0.NPU_SET_WEIGHT_REGION",
     ("cmd1.NPU_SET_WEIGHT_BASE", "cmd1.NPU_SET_WEIGHT_LENGTH", "cmd1.NPU_SET_WEIGHT1_BASE", "cmd1.NPU_SET_WEIGHT1_LENGTH")),
    ("biases", "generate_biases", "cmd0.NPU_SET_SCALE_REGION",
     ("cmd1.NPU_SET_SCALE_BASE", "cmd1.NPU_SET_SCALE_LENGTH", "cmd1.NPU_SET_SCALE1_BASE", "cmd1.NPU_SET_SCALE1_LENGTH")),
):
    contract(
        "ethosu.vela.register_command_stream_generator:%s" % _fn,
        variants={"%d_ranges" % n: {"emit": EMIT, _name: TTuple(*([RANGE] * n)), "arch": ARCH_NCORES} for n in (0, 1, 2)},
        requires=["emit_inv(emit)"],
        raises=[(ByteAlignmentError, None), (ByteSizeError, None)],
        ensures=KEEP + [
            "implies(len(%s) == 0, len(emit.cmd_stream) == old(len(emit.cmd_stream)))" % _name,
            "implies(len(%s) >= 1, D(emit, %s) == %s[0].region and D_addr(emit, %s) == %s[0].address and emit.decoded[%s][1] == %s[0].length)"
            % (_name, _region, _name, _regs[0], _name, _regs[1], _name),
            # second core: its own range, or (two cores, one range) the first range's address with length 0
            "implies(len(%s) == 2, D_addr(emit, %s) == %s[1].address and emit.decoded[%s][1] == %s[1].length)" % (_name, _regs[2], _name, _regs[3], _name),
            "implies(len(%s) == 1 and arch.ncores == 2, D_addr(emit, %s) == %s[0].address and emit.decoded[%s][1] == 0)" % (_name, _regs[2], _name, _regs[3]),
            # alignment: a normal return implies 16-byte multiples of every length (and, for weights, every address)
            "all(r.length %% 16 == 0 for r in %s)" % _name,
        ] + (["all(r.address % 16 == 0 for r in weights)"] if _name == "weights" else []),
        modifies_maps=mm(_region, *_regs), **COMMON,
    )
