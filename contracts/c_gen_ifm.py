"""C06: base-address registers and the complete IFM register group (generate_addresses, generate_ifm)."""
from ethosu.vela import register_command_stream_generator as rg
from ethosu.vela import register_command_stream_util as ru
from ethosu.vela.api import NpuLayout
from ethosu.vela.errors import ByteAlignmentError, ByteSizeError
from ethosu.vela.ethos_u55_regs.ethos_u55_regs import cmd0, cmd1
from ethosu.vela.tensor import TensorFormat

from pyvc.contracts import REGISTRY, contract, implies  # noqa: F401
from pyvc.values import *  # noqa: F401,F403

from contracts.c_emitter import EMIT, emit_inv, machine_of  # noqa: F401
from contracts.c_generators import ADDR, COMMON, D, D_addr, FM, KEEP, mm, s16  # noqa: F401
from contracts.c_rcs_util import default_strides  # noqa: F401


class _ArchA:
    pass


# storage_rounding_quantums[NHCWB16] = (1, 1, 1, 16): brick-format base addresses must be 16-byte aligned
ARCH_A = TStruct(_ArchA, storage_rounding_quantums=TConst({TensorFormat.NHCWB16: (1, 1, 1, 16)}))
ADDRS4 = TTuple(ADDR, ADDR, ADDR, ADDR)


def addr_alignment(layout, element_size):
    return 16 if layout == NpuLayout.NHCWB16 else element_size


contract(
    "ethosu.vela.register_command_stream_util:check_addresses", props=["C06"],
    types=dict(addresses=ADDRS4, layout=TEnum(NpuLayout), element_size=TInt(lo=1, hi=4), arch=ARCH_A),
    raises=[(ByteAlignmentError, "any(addresses[i] % addr_alignment(layout, element_size) != 0 for i in range(4))")],
)

from contracts.c_generators import FM_PREFIX, _stride_clauses, _stride_regs, _tile_regs  # noqa: E402


def _base_regs(g):
    return tuple("cmd1.NPU_SET_%s_BASE%d" % (g, i) for i in range(4))


contract(
    "ethosu.vela.register_command_stream_generator:generate_addresses",
    variants={v: dict(emit=EMIT, ptr_cmds=TConst([eval(r) for r in _base_regs(g)]), addresses=ADDRS4, layout=TEnum(NpuLayout), element_size=TInt(lo=1, hi=4),
                      arch=ARCH_A) for v, g in FM_PREFIX.items()},
    requires=["emit_inv(emit)"],
    raises=[(ByteAlignmentError, "any(addresses[i] % addr_alignment(layout, element_size) != 0 for i in range(4))")],
    ensures=KEEP,
    variant_ensures={v: [" and ".join("D_addr(emit, %s) == addresses[%d]" % (r, i) for i, r in enumerate(_base_regs(g)))] for v, g in FM_PREFIX.items()},
    variant_modifies_maps={v: mm(*_base_regs(g)) for v, g in FM_PREFIX.items()},
    **COMMON,
)


def _fm_group_clauses(g, fm):
    """register group of one feature map == its fields (register reference: *_M1 = value - 1)"""
    t = _tile_regs(g)
    return [
        "D(emit, cmd0.NPU_SET_%s_REGION) == %s.region" % (g, fm),
        " and ".join("D_addr(emit, %s) == %s.tiles.addresses[%d]" % (r, fm, i) for i, r in enumerate(_base_regs(g))),
        "D(emit, %s) == %s.tiles.height_0 - 1 and D(emit, %s) == %s.tiles.width_0 - 1" % (t[0], fm, t[2], fm),
        "s16(D(emit, %s)) == %s.tiles.height_1 - 1 or D(emit, %s) == %s.tiles.height_1 - 1" % (t[1], fm, t[1], fm),
    ] + _stride_clauses(g, fm)[:2] + [
        # zero point as 16-bit two's complement (0 when the feature map has no quantisation)
        "D(emit, cmd0.NPU_SET_%s_ZERO_POINT) == (%s.quantization.zero_point if %s.quantization is not None else 0) %% 2**16" % (g, fm, fm),
        # a normal return implies every base address satisfies the layout's alignment rule
        "all(%s.tiles.addresses[i] %% addr_alignment(%s.layout, %s.data_type.size_in_bytes()) == 0 for i in range(4))" % (fm, fm, fm),
    ]


def _fm_requires(fm):
    return ["emit_inv(emit)", "%s.tiles.height_0 >= 1" % fm, "%s.tiles.width_0 >= 1" % fm,
            "implies(%s.strides is None, %s.shape.width * %s.shape.depth * 4 * 16 < 2**40)" % (fm, fm, fm)]


def _fm_regs(g, extra0=()):
    return ("cmd0.NPU_SET_%s_REGION" % g, "cmd0.NPU_SET_%s_ZERO_POINT" % g) + _tile_regs(g) + tuple(extra0) + _base_regs(g) + _stride_regs(g)


contract(
    "ethosu.vela.register_command_stream_generator:generate_ifm",
    variants={"default": dict(emit=EMIT, ifm=FM, arch=ARCH_A)},
    requires=_fm_requires("ifm"),
    raises=[(ByteAlignmentError, None), (ByteSizeError, None)],
    ensures=KEEP + _fm_group_clauses("IFM", "ifm") + ["D(emit, cmd0.NPU_SET_IFM_DEPTH_M1) == ifm.shape.depth - 1"],
    modifies_maps=mm(*_fm_regs("IFM", ("cmd0.NPU_SET_IFM_DEPTH_M1",))),
    **COMMON,
)

contract(
    "ethosu.vela.register_command_stream_generator:generate_ofm",
    variants={"default": dict(emit=EMIT, ofm=FM, arch=ARCH_A)},
    requires=_fm_requires("ofm"),
    raises=[(ByteAlignmentError, None), (ByteSizeError, None)],
    ensures=KEEP + _fm_group_clauses("OFM", "ofm") + [
        "D(emit, cmd0.NPU_SET_OFM_HEIGHT_M1) == ofm.shape.height - 1 and D(emit, cmd0.NPU_SET_OFM_WIDTH_M1) == ofm.shape.width - 1"
        " and D(emit, cmd0.NPU_SET_OFM_DEPTH_M1) == ofm.shape.depth - 1"],
    modifies_maps=mm(*_fm_regs("OFM", ("cmd0.NPU_SET_OFM_HEIGHT_M1", "cmd0.NPU_SET_OFM_WIDTH_M1", "cmd0.NPU_SET_OFM_DEPTH_M1"))),
    **COMMON,
)

contract(
    "ethosu.vela.register_command_stream_generator:generate_ifm2",
    variants={"tensor": dict(emit=EMIT, ifm2=FM, has_scalar=TConst(False), arch=ARCH_A),
              "scalar": dict(emit=EMIT, ifm2=FM, has_scalar=TConst(True), arch=ARCH_A)},
    requires=_fm_requires("ifm2"),
    raises=[(ByteAlignmentError, None), (ByteSizeError, None)],
    ensures=KEEP + ["D(emit, cmd0.NPU_SET_IFM2_ZERO_POINT) == (ifm2.quantization.zero_point if ifm2.quantization is not None else 0) % 2**16"],
    # a tensor second input gets its complete register group; a scalar one only the zero point (no address registers are touched)
    variant_ensures={"tensor": _fm_group_clauses("IFM2", "ifm2"), "scalar": []},
    modifies_maps=mm("cmd0.NPU_SET_IFM2_ZERO_POINT"),
    variant_modifies_maps={"tensor": mm(*[r for r in _fm_regs("IFM2") if r != "cmd0.NPU_SET_IFM2_ZERO_POINT"]), "scalar": []},
    **COMMON,
)
