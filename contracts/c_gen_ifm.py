"""C06: base-address registers and the complete IFM register group (generate_addresses, generate_ifm)."""
from ethosu.vela import register_command_stream_generator as rg
from ethosu.vela import register_command_stream_util as ru
from ethosu.vela.api import NpuLayout
from ethosu.vela.errors import ByteAlignmentError, ByteSizeError
from ethosu.vela.ethos_u55_regs.ethos_u55_regs import cmd0, cmd1
from ethosu.vela.tensor import TensorFormat

from pyvc.contracts import REGISTRY, contract, implies  # noqa: F401
from pyvc.values import *  # noqa: F401,F403

from contracts.c_emitter import EMIT, emit_inv, machine_of  # noqa: F401
from contracts.c_generators import ADDR, COMMON, D, D_addr, FM, KEEP, mm, s16  # noqa: F401
from contracts.c_rcs_util import default_strides  # noqa: F401


class _ArchA:
    pass


# storage_rounding_quantums[NHCWB16] = (1, 1, 1, 16): brick-format base addresses must be 16-byte aligned
ARCH_A = TStruct(_ArchA, storage_rounding_quantums=TConst({TensorFormat.NHCWB16: (1, 1, 1, 16)}))
ADDRS4 = TTuple(ADDR, ADDR, ADDR, ADDR)


def addr_alignment(layout, element_size):
    return 16 if layout == NpuLayout.NHCWB16 else element_size


contract(
    "ethosu.vela.register_command_stream_util:check_addresses", props=["C06"],
    types=dict(addresses=ADDRS4, layout=TEnum(NpuLayout), element_size=TInt(lo=1, hi=4), arch=ARCH_A),
    raises=[(ByteAlignmentError, "any(addresses[i] % addr_alignment(layout, element_size) != 0 for i in range(4))")],
)

IFM_BASE = (cmd1.NPU_SET_IFM_BASE0, cmd1.NPU_SET_IFM_BASE1, cmd1.NPU_SET_IFM_BASE2, cmd1.NPU_SET_IFM_BASE3)

contract(
    "ethosu.vela.register_command_stream_generator:generate_addresses",
    variants={"ifm": dict(emit=EMIT, ptr_cmds=TConst(list(IFM_BASE)), addresses=ADDRS4, layout=TEnum(NpuLayout), element_size=TInt(lo=1, hi=4), arch=ARCH_A)},
    requires=["emit_inv(emit)"],
    raises=[(ByteAlignmentError, "any(addresses[i] % addr_alignment(layout, element_size) != 0 for i in range(4))")],
    ensures=KEEP + ["D_addr(emit, cmd1.NPU_SET_IFM_BASE0) == addresses[0] and D_addr(emit, cmd1.NPU_SET_IFM_BASE1) == addresses[1]"
                    " and D_addr(emit, cmd1.NPU_SET_IFM_BASE2) == addresses[2] and D_addr(emit, cmd1.NPU_SET_IFM_BASE3) == addresses[3]"],
    modifies_maps=mm("cmd1.NPU_SET_IFM_BASE0", "cmd1.NPU_SET_IFM_BASE1", "cmd1.NPU_SET_IFM_BASE2", "cmd1.NPU_SET_IFM_BASE3"),
    **COMMON,
)


_IFM_REGS0 = ("cmd0.NPU_SET_IFM_REGION", "cmd0.NPU_SET_IFM_HEIGHT0_M1", "cmd0.NPU_SET_IFM_HEIGHT1_M1", "cmd0.NPU_SET_IFM_WIDTH0_M1",
              "cmd0.NPU_SET_IFM_DEPTH_M1", "cmd0.NPU_SET_IFM_ZERO_POINT")
_IFM_REGS1 = ("cmd1.NPU_SET_IFM_BASE0", "cmd1.NPU_SET_IFM_BASE1", "cmd1.NPU_SET_IFM_BASE2", "cmd1.NPU_SET_IFM_BASE3",
              "cmd1.NPU_SET_IFM_STRIDE_C", "cmd1.NPU_SET_IFM_STRIDE_Y", "cmd1.NPU_SET_IFM_STRIDE_X")

contract(
    "ethosu.vela.register_command_stream_generator:generate_ifm",
    variants={"default": dict(emit=EMIT, ifm=FM, arch=ARCH_A)},
    requires=["emit_inv(emit)", "ifm.tiles.height_0 >= 1", "ifm.tiles.width_0 >= 1",
              "implies(ifm.strides is None, ifm.shape.width * ifm.shape.depth * 4 * 16 < 2**40)"],
    raises=[(ByteAlignmentError, None), (ByteSizeError, None)],
    # the complete IFM register group a decoder holds afterwards equals the feature map's fields (register reference: *_M1 = value - 1)
    ensures=KEEP + [
        "D(emit, cmd0.NPU_SET_IFM_REGION) == ifm.region",
        "D_addr(emit, cmd1.NPU_SET_IFM_BASE0) == ifm.tiles.addresses[0] and D_addr(emit, cmd1.NPU_SET_IFM_BASE1) == ifm.tiles.addresses[1]"
        " and D_addr(emit, cmd1.NPU_SET_IFM_BASE2) == ifm.tiles.addresses[2] and D_addr(emit, cmd1.NPU_SET_IFM_BASE3) == ifm.tiles.addresses[3]",
        "D(emit, cmd0.NPU_SET_IFM_HEIGHT0_M1) == ifm.tiles.height_0 - 1 and D(emit, cmd0.NPU_SET_IFM_WIDTH0_M1) == ifm.tiles.width_0 - 1",
        "s16(D(emit, cmd0.NPU_SET_IFM_HEIGHT1_M1)) == ifm.tiles.height_1 - 1 or D(emit, cmd0.NPU_SET_IFM_HEIGHT1_M1) == ifm.tiles.height_1 - 1",
        "D(emit, cmd0.NPU_SET_IFM_DEPTH_M1) == ifm.shape.depth - 1",
        "implies(ifm.strides is not None, D_addr(emit, cmd1.NPU_SET_IFM_STRIDE_C) == ifm.strides.depth and D_addr(emit, cmd1.NPU_SET_IFM_STRIDE_Y) == ifm.strides.height"
        " and D_addr(emit, cmd1.NPU_SET_IFM_STRIDE_X) == ifm.strides.width)",
        "implies(ifm.strides is None, D_addr(emit, cmd1.NPU_SET_IFM_STRIDE_C) == default_strides(ifm).depth and D_addr(emit, cmd1.NPU_SET_IFM_STRIDE_Y) == default_strides(ifm).height"
        " and D_addr(emit, cmd1.NPU_SET_IFM_STRIDE_X) == default_strides(ifm).width)",
        # zero point as 16-bit two's complement (0 when the feature map has no quantisation)
        "D(emit, cmd0.NPU_SET_IFM_ZERO_POINT) == (ifm.quantization.zero_point if ifm.quantization is not None else 0) % 2**16",
        # a normal return implies every base address satisfies the layout's alignment rule
        "all(ifm.tiles.addresses[i] % addr_alignment(ifm.layout, ifm.data_type.size_in_bytes()) == 0 for i in range(4))",
    ],
    modifies_maps=mm(*(_IFM_REGS0 + _IFM_REGS1)),
    **COMMON,
)
