"""Contracts for ethosu/vela/numeric_util.py (leaf helpers used by most properties)."""
from pyvc.contracts import contract, implies, bitlen  # noqa: F401
from pyvc.values import *  # noqa: F401,F403

ALL = ["C02", "C05", "C06", "C08", "C10", "C15"]

contract(
    "ethosu.vela.numeric_util:round_up", props=ALL, types=dict(a=PyInt, b=PyInt),
    requires=["b > 0"],
    ensures=["result == ((a + b - 1) // b) * b", "result % b == 0", "a <= result", "result < a + b"],
    returns=PyInt, always_inline=True,
)
contract(
    "ethosu.vela.numeric_util:round_down", props=ALL, types=dict(a=PyInt, b=PyInt),
    requires=["b > 0"],
    ensures=["result == (a // b) * b", "result % b == 0", "result <= a", "a < result + b"],
    returns=PyInt, always_inline=True,
)
contract(
    "ethosu.vela.numeric_util:round_up_divide", props=ALL, types=dict(a=PyInt, b=PyInt),
    requires=["b > 0"],
    ensures=["result == (a + b - 1) // b", "result * b >= a", "(result - 1) * b < a"],
    returns=PyInt, always_inline=True,
)
contract(
    "ethosu.vela.numeric_util:overlaps", props=["C04", "C05"],
    types=dict(start1=PyInt, end1=PyInt, start2=PyInt, end2=PyInt),
    ensures=["result == (start1 < end2 and start2 < end1)",
             # for non-empty intervals this is exactly "share a point"
             "implies(start1 < end1 and start2 < end2, result == (max(start1, start2) < min(end1, end2)))"],
    returns=PyBool, always_inline=True,
)
