"""C04: address ranges of a sub-area of a feature map (register_command_stream_util.get_h_ranges, get_address_ranges_for_area)."""
from ethosu.vela import register_command_stream_util as ru
from ethosu.vela.api import NpuAddressRange, NpuLayout
from ethosu.vela.operation import PointXYZ

from pyvc.contracts import REGISTRY, contract, implies  # noqa: F401
from pyvc.values import *  # noqa: F401,F403

import contracts.c_rcs_util  # noqa: F401  (must be imported before c_mem_access: the two modules import each other)
from contracts.c_mem_access import COORD, RANGE_OUT, STRIDES, fm_of, hw_addr, tile_of  # noqa: E402,F401
from contracts.c_rcs_util import FM  # noqa: E402,F401

POINT = TTuple(COORD, COORD, COORD, cls=PointXYZ)


def rows_between(lo, hi):
    """number of rows lo..hi (inclusive), 0 if empty"""
    return hi - lo + 1 if hi >= lo else 0


def area_rows(fm, start, end, t):
    """rows of the area start..end (inclusive, clipped to the shape) that lie in tile t: tiles 0/2 are left of width_0 and split at
    height_0, tiles 1/3 are right of it and split at height_1"""
    y1 = min(end.y, fm.shape.height - 1)
    x1 = min(end.x, fm.shape.width - 1)
    left = start.x < fm.tiles.width_0
    right = x1 >= fm.tiles.width_0
    return (rows_between(start.y, min(y1, fm.tiles.height_0 - 1)) if (t == 0 and left) else
            rows_between(start.y, min(y1, fm.tiles.height_1 - 1)) if (t == 1 and right) else
            rows_between(max(start.y, fm.tiles.height_0), y1) if (t == 2 and left) else
            rows_between(max(start.y, fm.tiles.height_1), y1) if (t == 3 and right) else 0)


contract(
    "ethosu.vela.register_command_stream_util:get_address_ranges_for_area", props=["C04", "C02"],
    variants={lay.name: dict(fm=fm_of(lay), start=POINT, end=POINT) for lay in NpuLayout},
    requires=["fm.tiles.height_0 >= 1 and fm.tiles.width_0 >= 1 and fm.tiles.height_1 >= 1",
              "start.x <= end.x and start.y <= end.y and start.z <= end.z",
              "start.x < fm.shape.width and start.y < fm.shape.height and start.z < fm.shape.depth",
              "implies(fm.strides is not None and fm.layout == NpuLayout.NHCWB16, fm.strides.depth >= 16 * fm.data_type.size_in_bytes())"],
    inline=["ethosu.vela.register_command_stream_util:get_h_ranges"],
    ensures=[
        # one range per row of the area in each of the four tiles: no row of any tile is left out (a missing row hides an overlap)
        "len(result) == area_rows(fm, start, end, 0) + area_rows(fm, start, end, 1) + area_rows(fm, start, end, 2) + area_rows(fm, start, end, 3)",
    ],
    returns=TList(TOpt(RANGE_OUT)),
)
