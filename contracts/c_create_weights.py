"""C08: address ranges of weights and scales handed to the register generator (high_level_command_to_npu_op.create_weights)."""
from ethosu.vela import high_level_command_to_npu_op as hl
from ethosu.vela import register_command_stream_util as ru
from ethosu.vela.api import NpuAddressRange
from ethosu.vela.architecture_features import MemPort
from ethosu.vela.high_level_command_stream import Box
from ethosu.vela.tensor import MemType
from ethosu.vela.weight_compressor import WeightKey

from pyvc.contracts import REGISTRY, contract, forall_int, implies  # noqa: F401
from pyvc.values import *  # noqa: F401,F403

from contracts.c_config import ARCHF
from contracts.c_mem_access import PORTS_OK
from contracts.c_weights import NWT, round16

WBOX = TStruct(Box, start_coord=TTuple(TInt(lo=0, hi=0), TInt(lo=0, hi=65535), TInt(lo=0, hi=65535), TInt(lo=0, hi=2**20)),
               end_coord=TTuple(TInt(lo=1, hi=1), TInt(lo=1, hi=65536), TInt(lo=1, hi=65536), TInt(lo=1, hi=2**20)))
RANGE_T = TTuple(PyInt, PyInt, PyInt, cls=NpuAddressRange)


def wr(t, core, box):
    """the encoded range of `core` for the depth slice that starts at the box's first channel (None if that core has none)"""
    return t.encoded_ranges.get(WeightKey(core, box.start_coord[3]))


RANGES_NONNEG = ("forall_int(lambda k: implies(%s.encoded_ranges.get(k) is not None, %s.encoded_ranges.get(k).offset >= 0"
                 " and %s.encoded_ranges.get(k).weight_offset >= 0 and %s.encoded_ranges.get(k).weight_bytes >= 0"
                 " and %s.encoded_ranges.get(k).scale_bytes >= 0))")
MEMTYPE_OK = "weight_tensor.mem_type in (MemType.Permanent_NPU, MemType.Permanent_CPU, MemType.Scratch, MemType.Scratch_fast)"


def total(r):
    return r.scale_bytes + r.weight_bytes


def rng(region, address, nbytes):
    return NpuAddressRange(region, address, round16(nbytes))


contract(
    "ethosu.vela.high_level_command_to_npu_op:create_weights", props=["C08"],
    variants={
        # weights read straight from the constants tensor, scales in the same tensor
        "direct,1core": dict(weight_tensor=NWT, weight_box=WBOX, scale_tensor=TConst(None), arch=ARCHF),
        "direct,2cores": dict(weight_tensor=NWT, weight_box=WBOX, scale_tensor=TConst(None), arch=ARCHF),
        # weights DMA'd into a buffer tensor: the cores' ranges are packed back to back, each rounded up to 16 bytes
        "buffered,2cores": dict(weight_tensor=NWT, weight_box=WBOX, scale_tensor=TConst(None), arch=ARCHF),
        # weights served from the cache, scales / biases in a standalone scale tensor
        "direct,1core,scale_tensor": dict(weight_tensor=NWT, weight_box=WBOX, scale_tensor=NWT, arch=ARCHF),
    },
    requires=PORTS_OK + [MEMTYPE_OK],
    variant_requires={
        "direct,1core": ["arch.ncores == 1", "weight_tensor.src_tensor is None", RANGES_NONNEG % (("weight_tensor",) * 5)],
        "direct,2cores": ["arch.ncores == 2", "weight_tensor.src_tensor is None", RANGES_NONNEG % (("weight_tensor",) * 5)],
        "buffered,2cores": ["arch.ncores == 2", "weight_tensor.src_tensor is not None and weight_tensor.src_tensor is not weight_tensor",
                            RANGES_NONNEG % (("weight_tensor.src_tensor",) * 5)],
        "direct,1core,scale_tensor": ["arch.ncores == 1", "weight_tensor.src_tensor is None", "scale_tensor.src_tensor is None",
                                      "scale_tensor is not weight_tensor", RANGES_NONNEG % (("weight_tensor",) * 5), RANGES_NONNEG % (("scale_tensor",) * 5),
                                      "scale_tensor.mem_type in (MemType.Permanent_NPU, MemType.Permanent_CPU, MemType.Scratch, MemType.Scratch_fast)",
                                      # the scale tensor was encoded for the same (core, slice) list as the weights
                                      "implies(wr(weight_tensor, 0, weight_box) is not None, wr(scale_tensor, 0, weight_box) is not None)"],
    },
    loops={0: dict(unroll=2)},
    ensures=["len(result[0]) == len(result[1])"],
    variant_ensures={
        "direct,1core": [
            "len(result[0]) == (1 if wr(weight_tensor, 0, weight_box) is not None else 0)",
            "implies(len(result[0]) == 1, result[0][0] == rng(hl.get_region(weight_tensor.mem_type, arch),"
            " weight_tensor.address + wr(weight_tensor, 0, weight_box).offset + wr(weight_tensor, 0, weight_box).weight_offset, wr(weight_tensor, 0, weight_box).weight_bytes))",
            "implies(len(result[0]) == 1, result[1][0] == rng(hl.get_region(weight_tensor.mem_type, arch),"
            " weight_tensor.address + wr(weight_tensor, 0, weight_box).offset, wr(weight_tensor, 0, weight_box).scale_bytes))",
        ],
        "direct,2cores": [
            "len(result[0]) == (1 if wr(weight_tensor, 0, weight_box) is not None else 0) + (1 if wr(weight_tensor, 1, weight_box) is not None else 0)",
            # both cores have a range: core order, each at its own offset in the constants tensor
            "implies(len(result[0]) == 2, result[0][0] == rng(hl.get_region(weight_tensor.mem_type, arch),"
            " weight_tensor.address + wr(weight_tensor, 0, weight_box).offset + wr(weight_tensor, 0, weight_box).weight_offset, wr(weight_tensor, 0, weight_box).weight_bytes)"
            " and result[0][1] == rng(hl.get_region(weight_tensor.mem_type, arch),"
            " weight_tensor.address + wr(weight_tensor, 1, weight_box).offset + wr(weight_tensor, 1, weight_box).weight_offset, wr(weight_tensor, 1, weight_box).weight_bytes))",
            "implies(len(result[0]) == 2, result[1][1] == rng(hl.get_region(weight_tensor.mem_type, arch),"
            " weight_tensor.address + wr(weight_tensor, 1, weight_box).offset, wr(weight_tensor, 1, weight_box).scale_bytes))",
        ],
        "direct,1core,scale_tensor": [
            "len(result[0]) == (1 if wr(weight_tensor, 0, weight_box) is not None else 0)",
            "implies(len(result[0]) == 1, result[0][0] == rng(hl.get_region(weight_tensor.mem_type, arch),"
            " weight_tensor.address + wr(weight_tensor, 0, weight_box).offset + wr(weight_tensor, 0, weight_box).weight_offset, wr(weight_tensor, 0, weight_box).weight_bytes))",
            # scales come from the standalone tensor: its own region, address and range
            "implies(len(result[0]) == 1, result[1][0] == rng(hl.get_region(scale_tensor.mem_type, arch),"
            " scale_tensor.address + wr(scale_tensor, 0, weight_box).offset, wr(scale_tensor, 0, weight_box).scale_bytes))",
        ],
        "buffered,2cores": [
            "len(result[0]) == (1 if wr(weight_tensor.src_tensor, 0, weight_box) is not None else 0) + (1 if wr(weight_tensor.src_tensor, 1, weight_box) is not None else 0)",
            # packed: core 0 at the buffer start, core 1 after core 0's range rounded up to 16 bytes (the layout create_dma_op transfers)
            "implies(len(result[0]) == 2, result[0][0] == rng(hl.get_region(weight_tensor.mem_type, arch),"
            " weight_tensor.address + wr(weight_tensor.src_tensor, 0, weight_box).weight_offset, wr(weight_tensor.src_tensor, 0, weight_box).weight_bytes)"
            " and result[0][1] == rng(hl.get_region(weight_tensor.mem_type, arch),"
            " weight_tensor.address + round16(total(wr(weight_tensor.src_tensor, 0, weight_box))) + wr(weight_tensor.src_tensor, 1, weight_box).weight_offset,"
            " wr(weight_tensor.src_tensor, 1, weight_box).weight_bytes))",
            "implies(len(result[0]) == 2, result[1][1] == rng(hl.get_region(weight_tensor.mem_type, arch),"
            " weight_tensor.address + round16(total(wr(weight_tensor.src_tensor, 0, weight_box))), wr(weight_tensor.src_tensor, 1, weight_box).scale_bytes))",
        ],
    },
    returns=TTuple(TList(RANGE_T), TList(RANGE_T)),
    assumptions=["Tensor.address (a property backed by the process-wide TensorAddressMap) is modelled as a field",
                 "standalone scale tensors are covered for one core only"],
)


# ===== weight DMA (create_dma_op, weights branch): what is transferred is exactly what create_weights expects in the buffer ===========
from ethosu.vela.api import NpuDmaOperation  # noqa: E402
from ethosu.vela.tensor import TensorPurpose  # noqa: E402



def _dma_record(eng, args, kwargs):
    """NpuDmaOperation(src, dest): a record of its two address ranges (the base-class bookkeeping is not modelled)"""
    return VStruct(NpuDmaOperation, {"src": args[0], "dest": args[1]})


class _OutT:
    pass


class _Dma:
    pass


OUT_T = TStruct(_OutT, purpose=TEnum(TensorPurpose), mem_type=TEnum(MemType, members=list(MemType.all())), address=TInt(lo=0, hi=2**40))
DMA_CMD = TStruct(_Dma, in_tensor=NWT, out_tensor=OUT_T, box=WBOX)


def dwr(cmd, core):
    return cmd.in_tensor.encoded_ranges.get(WeightKey(core, cmd.box.start_coord[3]))


contract(
    "ethosu.vela.high_level_command_to_npu_op:create_dma_op", props=["C08"],
    variants={"weights,%dcore" % n: dict(cmd=DMA_CMD, arch=ARCHF) for n in (1, 2)},
    requires=["arch.cache_mem_area in (MemPort.Axi0, MemPort.Axi1)", "arch.arena_mem_area in (MemPort.Axi0, MemPort.Axi1)",
              "cmd.in_tensor.purpose == TensorPurpose.Weights",
              "cmd.in_tensor.mem_type in (MemType.Permanent_NPU, MemType.Permanent_CPU, MemType.Scratch, MemType.Scratch_fast)",
              "cmd.out_tensor.mem_type in (MemType.Permanent_NPU, MemType.Permanent_CPU, MemType.Scratch, MemType.Scratch_fast)",
              RANGES_NONNEG % (("cmd.in_tensor",) * 5),
              "dwr(cmd, 0) is not None"],        # core 0 always has a range for a slice that is transferred (it takes the first channel)
    variant_requires={"weights,1core": ["arch.ncores == 1"], "weights,2core": ["arch.ncores == 2"]},
    loops={0: dict(unroll=2)},
    externals={"ethosu.vela.api:NpuDmaOperation": _dma_record},
    ensures=[
        # source: the slice's first (core 0) range in the constants tensor; destination: the start of the buffer tensor
        "result.src.address == cmd.in_tensor.address + dwr(cmd, 0).offset and result.dest.address == cmd.out_tensor.address",
        "result.src.region == hl.get_region(cmd.in_tensor.mem_type, arch)",
        "result.dest.region == (ru.BASE_PTR_INDEX_MEM2MEM if cmd.out_tensor.purpose == TensorPurpose.LUT else hl.get_region(cmd.out_tensor.mem_type, arch))",
        # length: every core's range, each rounded up to 16 bytes - the packing create_weights assumes for the buffered tensor
        "result.src.length == result.dest.length",
    ],
    variant_ensures={
        "weights,1core": ["result.src.length == round16(total(dwr(cmd, 0)))"],
        "weights,2core": ["result.src.length == round16(total(dwr(cmd, 0))) + (round16(total(dwr(cmd, 1))) if dwr(cmd, 1) is not None else 0)"],
    },
    assumptions=["Tensor.address modelled as a field; the non-weight branch (address_for_coordinate: numpy) is not covered"],
)


def lemma_dma_length(s0, w0, s1, w1):
    """Lemma (about the specs only): the DMA length of a two-core slice, computed by create_dma_op from the ranges' total bytes."""
    return round16(s0 + w0) + round16(s1 + w1)


contract(
    "contracts.c_create_weights:lemma_dma_length", props=["C08"], lemma=True,
    types=dict(s0=TInt(lo=0, hi=2**32), w0=TInt(lo=0, hi=2**32), s1=TInt(lo=0, hi=2**32), w1=TInt(lo=0, hi=2**32)),
    # weight sections are multiples of 16 bytes (proved for every range recorded by encode_weight_and_scale_tensor)
    requires=["w0 % 16 == 0 and w1 % 16 == 0"],
    # ... so the transferred length equals the bytes the encoder appended for the slice (scales padded to 16, then weights, per core):
    # exactly the span that double_buffer_sizes[idx % 2] bounds - the DMA'd slice fits the buffer
    ensures=["result == (round16(s0) + w0) + (round16(s1) + w1)"],
)
