"""Contracts for look-up-table generators (property C19): tflite_graph_optimiser.convert_lrelu_to_lut."""
import math

import numpy as np

from ethosu.vela import tflite_graph_optimiser as tgo
from ethosu.vela.data_type import DataType
from ethosu.vela.operation import Operation

from pyvc.contracts import REGISTRY, contract, implies  # noqa: F401
from pyvc.spec import Uninterp
from pyvc.values import *  # noqa: F401,F403

from contracts.c_fp_math import I32_MAX, mbqm
from contracts.c_scaling import exp_of, real_mul, tflite_q31


class _Tens:      # placeholders for the two fields of Tensor / QuantizationParameters that the table generators read
    pass


class _Quant:
    pass


def tens(dt):
    # scale_f32 is an np.float32 and zero_point an np.int64 when they come from the TFLite reader
    return TStruct(_Tens, dtype=TConst(dt), quantization=TStruct(_Quant, scale_f32=F32, zero_point=TInt((64, True), lo=-128, hi=255)))


def _capture_values(eng, args, kwargs):
    """convert_to_lut(op, values, name) builds the LUT tensor (numpy / graph objects): the table it is given is captured as a ghost."""
    eng.env["_ghost_values"] = args[1]
    return eng.fresh(TOpaque("op"), "lut_op")


# ---- spec: TFLite reference LeakyRelu on quantised values (reference_ops::QuantizeLeakyRelu) -----------------------------------
def lrelu_ref(x, zp_in, zp_out, id_mult, id_shift, alpha_scalar, alpha_mult, alpha_shift, qmin, qmax):
    """input code x -> output code: zp_out + MultiplyByQuantizedMultiplier(x - zp_in, identity) for x >= zp_in,
    zp_out + MultiplyByQuantizedMultiplier(alpha_scalar * (x - zp_in), alpha) below it; saturated to the output type."""
    y = int(zp_out) + (mbqm(int(alpha_scalar) * (x - int(zp_in)), alpha_mult, alpha_shift) if x < int(zp_in) else mbqm(x - int(zp_in), id_mult, id_shift))
    return min(qmax, max(qmin, y))


def id_real(op):
    return real_mul(np.double(op.ifm.quantization.scale_f32), 1, np.double(op.ofm.quantization.scale_f32))


def alpha_real(op):
    return real_mul(np.double(op.ifm.quantization.scale_f32), op.attrs["alpha"], np.double(op.ofm.quantization.scale_f32))


def usable(x):
    """a real multiplier whose quantised form MultiplyByQuantizedMultiplier accepts for 9-bit operands (no assertion in fp_math)"""
    return math.isfinite(x) and x > 0 and -30 <= exp_of(x) <= 22 and tflite_q31(x) <= I32_MAX


contract(
    "ethosu.vela.tflite_graph_optimiser:convert_lrelu_to_lut", props=["C19"],
    variants={dt.name if hasattr(dt, "name") else str(dt): dict(
        op=TStruct(Operation, ifm=tens(dt), ofm=tens(dt), attrs=TDict(alpha=F64)), arch=TOpaque("arch"))
        for dt in (DataType.int8, DataType.uint8)},
    externals={"ethosu.vela.lut:convert_to_lut": _capture_values,
               # the quantised multiplier of a real scale (proved equal to TFLite's in C09) is used here by congruence only
               # (range 2**30 .. 2**31: proved for quantise_scale in C09)
               "contracts.c_scaling:tflite_q31": Uninterp("tflite_q31", TInt(lo=2**30, hi=2**31), native=tflite_q31).model(),
               "contracts.c_scaling:exp_of": Uninterp("exp_of", PyInt, native=exp_of).model()},
    ghost_results={"_ghost_values": TList(PyInt)},
    requires=[
        "math.isfinite(op.ifm.quantization.scale_f32) and op.ifm.quantization.scale_f32 > 0",
        "math.isfinite(op.ofm.quantization.scale_f32) and op.ofm.quantization.scale_f32 > 0",
        "math.isfinite(op.attrs['alpha']) and op.attrs['alpha'] > 0",
        "math.isfinite(id_real(op)) and id_real(op) > 0", "-30 <= exp_of(id_real(op)) <= 22", "tflite_q31(id_real(op)) <= I32_MAX",
        "math.isfinite(alpha_real(op)) and alpha_real(op) > 0", "-30 <= exp_of(alpha_real(op)) <= 22", "tflite_q31(alpha_real(op)) <= I32_MAX",
        # zero points of the tensor's own type
        "implies(op.ifm.dtype == DataType.int8, -128 <= op.ifm.quantization.zero_point <= 127 and -128 <= op.ofm.quantization.zero_point <= 127)",
        "implies(op.ifm.dtype == DataType.uint8, 0 <= op.ifm.quantization.zero_point <= 255 and 0 <= op.ofm.quantization.zero_point <= 255)",
    ],
    loops={0: dict(invariants=[
        "len(values) == _it0",
        "all(values[i] == lrelu_ref(quantized_min + i, zp_in, zp_out, identity_scale, identity_shift, alpha_scalar, alpha_scale, alpha_shift,"
        " quantized_min, quantized_max) for i in range(_it0))",
    ], havoc_types={"values": TList(PyInt)})},
    ensures=[
        # exactly 256 entries, in input-code order, each the reference function of its input code
        "len(_ghost_values) == 256",
        "all(_ghost_values[i] == lrelu_ref((-128 if op.ifm.dtype == DataType.int8 else 0) + i, op.ifm.quantization.zero_point, op.ofm.quantization.zero_point,"
        " tflite_q31(id_real(op)), 31 - exp_of(id_real(op)), 1, tflite_q31(alpha_real(op)), 31 - exp_of(alpha_real(op)),"
        " -128 if op.ifm.dtype == DataType.int8 else 0, 127 if op.ifm.dtype == DataType.int8 else 255) for i in range(256))",
    ],
    float_abstract=True, replay=False, opaque_specs=["mbqm"], mixed_int_merge=True,
    assumptions=["the 'alpha_scaling' attribute path (LeakyReLU recovered from Mul+Max) is not covered: attrs has only 'alpha'",
                 "convert_to_lut (numpy table -> LUT tensor) receives the table unchanged (captured at the call)"],
)


# convert_to_lut8 (sigmoid / tanh tables): a contract of the same shape (entry == clamp(round_away_zero(zp_out + fn(s_in * (x - zp_in)) / s_out)) in
# double precision, fn uninterpreted) was written and tried; z3 left the invariant-preservation and the final obligation undecided
# (mixed int / float min-max terms with FloatingPoint conversions, > 60 s each), so it is not registered in this revision.
