"""C05: HillClimbAllocator.allocate_indices - every pair of allocated live ranges that are alive together is disjoint."""
from ethosu.vela import hillclimb_allocation as hc

from pyvc.contracts import REGISTRY, contract, implies  # noqa: F401
from pyvc.values import *  # noqa: F401,F403

from contracts.c_allocation import HCA, LRI, NOT_ALLOCATED, disjoint, live_together  # noqa: F401


def allocated_ok(x):
    return x.address == NOT_ALLOCATED or (x.address >= 0 and x.end_address == x.address + x.size)


def pair_ok(a, b):
    """two allocated ranges that are alive at a common time do not share a byte"""
    return (a.address == NOT_ALLOCATED or b.address == NOT_ALLOCATED or not live_together(a, b) or a.size == 0 or b.size == 0
            or disjoint(a.address, a.size, b.address, b.size))


contract(
    "ethosu.vela.hillclimb_allocation:HillClimbAllocator.allocate_indices", props=["C05"],
    types=dict(self=HCA, indices=TList(PyInt)),
    requires=[
        "all(0 <= indices[k] < len(self.lrs) for k in range(len(indices)))",
        "all(self.lrs[i] is not self.lrs[j] for i in range(len(self.lrs)) for j in range(i + 1, len(self.lrs)))",
        "all(self.lrs[i].size >= 0 and self.lrs[i].min_alignment > 0 for i in range(len(self.lrs)))",
        # what the constructor establishes (bounded check): neighbour lists contain every OTHER range alive at a common time, only ranges of
        # the same allocator, never the range itself
        "all(implies(i != j and live_together(self.lrs[i], self.lrs[j]), any(self.lrs[i].neighbours[k] is self.lrs[j] for k in range(len(self.lrs[i].neighbours))))"
        " for i in range(len(self.lrs)) for j in range(len(self.lrs)))",
        "all(all(self.lrs[i].neighbours[k] is not self.lrs[i] for k in range(len(self.lrs[i].neighbours))) for i in range(len(self.lrs)))",
        "all(all(any(self.lrs[i].neighbours[k] is self.lrs[j] for j in range(len(self.lrs))) for k in range(len(self.lrs[i].neighbours))) for i in range(len(self.lrs)))",
    ],
    hints={"before:self.allocate_lr(lr)": [
        "0 <= index < len(self.lrs) and lr is self.lrs[index]",
        "all(lr.neighbours[k] is not lr for k in range(len(lr.neighbours)))",
        # every neighbour is one of the allocator's ranges, hence well-formed (allocated consistently or not allocated)
        "all(allocated_ok(lr.neighbours[k]) and lr.neighbours[k].size >= 0 for k in range(len(lr.neighbours)))",
    ]},
    loops={
        0: dict(invariants=["all(self.lrs[i].address == NOT_ALLOCATED for i in range(_it0))"], modifies_fields=["address"]),
        1: dict(invariants=[
            "size >= 0",
            "all(allocated_ok(self.lrs[i]) for i in range(len(self.lrs)))",
            "all(self.lrs[i].address == NOT_ALLOCATED or self.lrs[i].end_address <= size for i in range(len(self.lrs)))",
            "all(pair_ok(self.lrs[i], self.lrs[j]) for i in range(len(self.lrs)) for j in range(len(self.lrs)) if i != j)",
        ], modifies_fields=["address", "end_address", "predecessor", "turn"]),
    },
    ensures=[
        "all(allocated_ok(self.lrs[i]) for i in range(len(self.lrs)))",
        # SAFETY: no two allocated ranges that are alive together overlap
        "all(pair_ok(self.lrs[i], self.lrs[j]) for i in range(len(self.lrs)) for j in range(len(self.lrs)) if i != j)",
        # the returned size bounds every allocated range
        "all(self.lrs[i].address == NOT_ALLOCATED or self.lrs[i].end_address <= result for i in range(len(self.lrs)))",
    ],
    modifies=["address", "end_address", "predecessor", "turn"],
)
