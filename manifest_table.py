# Data for tools_gen_manifest.py
SOURCE_COMMITS = []
NOTES = ("Contract-based deductive verification of the real Python source (pyvc, see DESIGN.md section 1). "
         "Exit codes of ./check: 0 held, 1 VIOLATION, 2 undecided, 3 checker error.")
PYVC_NOTE = ("Trusted: the pyvc executor's encoding of Python/NumPy semantics (cross-checked against CPython, see DESIGN 1.8), z3/cvc5, "
             "the axioms listed in evidence.assumptions, and the surrounding code named 'Out' in DESIGN section 3.")
CLAIMED = {
    "C02": ("Unbounded proof of the links of the chain that are functions: get_address equals the Ethos-U addressing rule (tiles, NHWC / NHCWB16 "
            "bricks); footprint soundness of get_address_range / get_address_ranges (EVERY element of the feature map shape, not only the corners, "
            "has all its bytes in the range of its tile); check_mem_limits returns normally IFF every range of every region, read and written, lies "
            "inside the region's limit, else VelaError (nested loop invariants over a dict of range sets); get_region maps only the permanent memory "
            "types to the constants region; get_mem_limits_for_regions / mem_type_size give arena_cache_size as the fast-scratch limit exactly in "
            "Dedicated-SRAM modes and shram_size_bytes for SHRAM; rolling_buffer_shape and the double-buffer sizes of the weight encoder bound what is "
            "written into the buffers they size. The composition over scheduler, allocator and serialiser is an assumed link.",
            PYVC_NOTE + " Not yet under contract in this revision: get_op_memory_accesses / get_dma_memory_accesses (construction of the access sets from the "
            "footprints), the order check-before-issue in generate_command_stream, Tensor.address_for_coordinate, publication of allocator totals as "
            "tensor shapes (DESIGN 3/C02 links L3, L5-L8). Tile boxes are required to have height_1 == height_0 (all compiler-built tile boxes do).",
            "contract-based deductive verification (symbolic execution of real AST + SMT, ghost-quantified footprint lemmas, loop invariants over heap maps)", "DESIGN.md 3/C02"),
    "C04": ("Unbounded proof that conflict detection is exact (RangeSet.intersects two-pointer invariant, range_lists_overlap, RangeSet.__or__ covers "
            "exactly the bytes of both operands); that get_wait_dependency, for DMA and kernel operations alike, returns the wait count naming the "
            "NEWEST conflicting operation of the other queue, leaves nothing outstanding there that conflicts with the new operation, and bounds its "
            "own queue by the hardware depth (loop invariants over the reverse scan and the pop loop, lists of object references, conflict relation "
            "abstract); block-job geometry for BLOCKDEP (block numbering, previous-job OFM volume, first-job IFM volume contains the receptive field, "
            "per accelerator class), one address range per row and tile of a feature-map sub-area (get_address_ranges_for_area), exactness of "
            "MemoryRangeSet.intersects and MemoryAccessSet.conflicts, and the search loops of calc_blockdep: if job f of this operation overlaps the b-th block from the end of the "
            "previous one then BLOCKDEP <= f + b (suffix slice, geometry abstract).",
            PYVC_NOTE + " Not under contract: MemoryRangeSet.__or__/__ior__ and MemoryAccessSet.add (dict comprehension over key unions), the prefix of "
            "calc_blockdep (forced-zero cases, whole-tensor overlap), generate_cmd_waits and the issue order in generate_command_stream; the WAR/WAW "
            "obligation between consecutive kernels (DESIGN D9) is not decided; the hardware execution model is an axiom set (DESIGN 3/C04).",
            "contract-based deductive verification (loop invariants, heap model, ghost permutation lemmas, mechanical suffix slice; bounded refutation for changed code)", "DESIGN.md 3/C04, 7.2"),
    "C05": ("Unbounded proofs with loop invariants over a symbolic heap: GreedyAllocator.alloc keeps current_allocs sorted/disjoint, places the new "
            "range aligned and disjoint from every live entry and tracks memory_required exactly; HillClimb allocate_lr terminates (variant) "
            "and avoids every allocated neighbour; allocate_indices keeps every pair of allocated ranges that are alive together disjoint (loop invariant, modular allocate_lr "
            "with a cell-level frame); iteration bound / memory limit resolution of the constructor (slice). BOUNDED stand-ins (labelled, not counted "
            "as proved): neighbour relation of the HillClimb constructor, end-to-end allocate() and greedy allocate_live_ranges on every instance of a "
            "small scope. dealloc, linear allocation and search are not under contract.",
            PYVC_NOTE + " Stable-sort insertion axiom for sorted(); LiveRange.set_address treated as returning its argument.",
            "contract-based deductive verification (symbolic execution of real AST + SMT, loop invariants, heap model)", "DESIGN.md 3/C05"),
    "C06": ("Unbounded proof of the emitter's representation invariant (what each register machine remembers equals what a decoder of the "
            "emitted words holds, so eliding a repeated write is sound for every history), of the word format of cmd0/cmd1/wait/op words, "
            "and, for the register generators under contract, that the decoded register file equals the operation's fields, that every value "
            "passed to the emitter fits its 16/32-bit field (call-site obligations = no truncation) and that alignment errors are raised "
            "exactly when a stride/length/address is misaligned; exactly one kick-off word per operation, never NPU_OP_STOP.",
            PYVC_NOTE + " Ghost field `decoded` is updated by ghost statements at the two append sites (reviewed to mirror the decoder); "
            "legal(op) ranges are the contract preconditions printed in the evidence; the IFM / IFM2 / OFM register groups, SHRAM and broadcast registers are under contract; generate_common (the composed register table "
            "of a Conv2D operation) is verified in the thorough tier only (10 minutes); per-op generators / generate_command_stream composition and the "
            "scaling generators are not under contract.",
            "contract-based deductive verification (heap model with maps, ghost state, opaque invariants, modular calls)", "DESIGN.md 3/C06"),
    "C08": ("Unbounded proof (Python side): encode_bias is the inverse of the 80-bit record reader (40-bit two's-complement bias, 32-bit scale, "
            "6-bit shift, every byte in range); slice/core loops of encode_weight_and_scale_tensor (mechanical suffix slice, per core count and "
            "weights/scale-only mode, loop invariants): every recorded (core, slice) range starts 16-byte aligned, after every earlier range (disjoint, "
            "stream order), holds exactly one 10-byte record per output channel of the slice assigned to that core, weight section at the next "
            "16-byte boundary with a 16-byte multiple length, is exactly the bytes appended for it; the stream length is a multiple of 16; the recorded "
            "double-buffer sizes bound every slice of that parity; create_weights / create_dma_op: address ranges and DMA length handed to the "
            "hardware equal tensor address + recorded range (16-byte rounded, cores packed back to back for buffered tensors).",
            PYVC_NOTE + " Assumed (listed in the evidence): mlw_codec output length is a multiple of 16 (C07), _prepare_scale_and_bias returns one in-range "
            "(scale, shift, bias) per channel, slice boundaries except the last are multiples of the core count and the last is the OFM depth (call sites). "
            "The compression-cache clause (2-safety over the process-wide "
            "cache) is outside this revision - a cached encoding being byte-identical to a fresh one is NOT decided.",
            "contract-based deductive verification (mechanical suffix slice, loop invariants, ghost fields, proof hints at the recording site)", "DESIGN.md 3/C08"),
    "C09": ("Unbounded proof, per function and per numeric argument type, that quantise_scale & co compute exactly the TFLite "
            "reference multiplier/shift (bit-exact IEEE-754 reasoning in z3 FloatingPoint + bit-vectors) and the stated error/range bounds; "
            "average-pool divisor lemma per window-size class for all accumulators below 2**30; elementwise_mul_scale equals the quantised "
            "double-precision real multiplier for every argument type that reaches it (general float products / quotients uninterpreted).",
            PYVC_NOTE + " simplified_/advanced_elementwise_add_sub_scale: bounded witness only (z3 FloatingPoint did not decide them); the scale-selection "
            "branches of the register generator are not under contract.", "contract-based deductive verification (symbolic execution of real AST + SMT)", "DESIGN.md 3/C09"),
    "C10": ("Unbounded proof that Box.transform_with_strides_and_skirt returns, for every OFM box, stride, skirt and IFM shape, exactly the receptive "
            "field clipped to the IFM (start and both vertical paddings exact; end covers it and stays inside the IFM), that the padding/skirt "
            "computation gives the SAME/VALID split with the trailing skirt covering the last window, and the rolling-buffer liveness lemma "
            "(rows needed by a consumer stripe and rows written next never share a slot); _required_size / get_ifm_area_required book exactly the rows "
            "and columns the receptive field needs (each axis with its own stride and dilated kernel); the stripe generator derives the dilated kernel "
            "height from the H entries of ksize / weights / dilation and every cascade build starts with an empty buffer-shape cache (window slices); "
            "create_padding hands the hardware the operator's own padding for single-stripe execution, else the box's vertical padding, and "
            "left/right padding only at the edges of the read window. Variants proved: no split offset, upscale 1.",
            PYVC_NOTE + " np.subtract on 4-lists modelled element-wise on mathematical ints; stripe loops of the generator, tile padding, "
            "split offsets in the box transform and upscaling are not under contract in this revision.",
            "contract-based deductive verification (symbolic execution of real AST + SMT)", "DESIGN.md 3/C10"),
    "C15": ("Unbounded proof, for each of the distinct SHRAM configurations / six accelerators (finite, exhaustive) and all shapes, kernels, bit depths "
            "and flags symbolic, that a layout returned by _try_block_config is ordered, non-overlapping, inside the bank count and that its "
            "IFM / accumulator partitions double-buffer the block at the bank granule; try_block_config accepts only positive multiples of the "
            "micro-block within the maximum block and returns exactly that layout; get_arch_block_config (the generator) requests that validation for "
            "exactly the operation's own block, shapes, bit depth, traversal, kernel, LUT use, scalar/tensor second input and scaling (argument capture), and generate_shram_registers writes exactly that layout.",
            PYVC_NOTE + " float '/ 8' handled as exact dyadic arithmetic (exactness proved per operation); find_block_config search loop (BOUNDED stand-in only: its results on a stated grid are re-validated by try_block_config) and the "
            "public query loop are not yet under contract in this revision.",
            "contract-based deductive verification (symbolic execution of real AST + SMT), per-accelerator instantiation", "DESIGN.md 3/C15"),
    "C17": ("Unbounded proof over all word lists (symbolic length and content) that the payload is COP1, config action, NOP padding to a "
            "16-byte boundary, a length word equal to the stream length, then the words unmodified; VelaError iff len >= 2**24. Accelerator-"
            "dependent words by exhaustive native evaluation over the finite domain (6 accelerators, all ordered pairs of calls).",
            PYVC_NOTE + " struct.pack('<nI') axiomatised as little-endian concatenation.",
            "contract-based deductive verification + exhaustive evaluation of the finite accelerator domain", "DESIGN.md 3/C17"),
    "C18": ("Unbounded proof that _read_config implements the documented inheritance rule (recursive spec, modular recursion) and rejects unknown / "
            "self-inheriting sections; that the tail of _get_vela_config enforces legal memory-area mappings, size range and CLI-over-file precedence for "
            "every state the reading part can produce (suffix slice). Path lookup and argparse wiring of vela.main are bounded stand-ins.",
            PYVC_NOTE + " ConfigParser abstracted as an uninterpreted section/key map; strings known up to identity.",
            "contract-based deductive verification (recursive spec functions, mechanical slices) + labelled bounded stand-in for vela.main", "DESIGN.md 3/C18"),
    "C19": ("Unbounded proof that every fp_math helper equals the gemmlowp reference (written as mathematical functions on Z) for each integer "
            "type that reaches it from a call site, including NumPy fixed-width wrap-around semantics, all exponents/shifts exhaustively; "
            "exp_on_negative_values proved equal to the reference composition; convert_lrelu_to_lut: 256 entries in input-code order, each the TFLite "
            "reference LeakyReLU of its input code (loop invariant; multipliers and MultiplyByQuantizedMultiplier used by congruence).",
            PYVC_NOTE + " convert_to_lut8 (sigmoid/tanh), hard-swish, optimise_quantize and the 16-bit tables are not under contract (convert_to_lut8 was "
            "tried and left undecided by z3, so it is not registered).",
            "contract-based deductive verification (symbolic execution of real AST + SMT, nonlinear products abstracted soundly)", "DESIGN.md 3/C19"),
}
PLANNED = "claimed in DESIGN.md; its contracts are not built yet in this revision, so no check is registered"
NOT_APPLICABLE = {
    "C01": "whole-compiler semantic equivalence over graphs and schedules: no contract on any function in reach can state it (DESIGN 4)",
    "C03": "trace property of the emitted stream over all schedules; mechanisms outside the verifiable subset (DESIGN 4)",
    "C07": "C sources; no deductive C verifier is installed (DESIGN 4)",
    "C11": "flatbuffer reader/writer and graph partitioning by reflection over object graphs (DESIGN 4)",
    "C12": "emergent from live-range extraction + writer; only the allocator link is contract-sized and it is C05 (DESIGN 4)",
    "C13": "totality of the whole compiler; per-function no_exception obligations do not decide it (DESIGN 4)",
    "C14": "2-safety over process histories and global mutable state (DESIGN 4)",
    "C16": "pipeline-emergent placement and natural-language report text (DESIGN 4)",
}
