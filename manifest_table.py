# Data for tools_gen_manifest.py
SOURCE_COMMITS = []
NOTES = ("Contract-based deductive verification of the real Python source (pyvc, see DESIGN.md section 1). "
         "Exit codes of ./check: 0 held, 1 VIOLATION, 2 undecided, 3 checker error.")
PYVC_NOTE = ("Trusted: the pyvc executor's encoding of Python/NumPy semantics (cross-checked against CPython, see DESIGN 1.8), z3/cvc5, "
             "the axioms listed in evidence.assumptions, and the surrounding code named 'Out' in DESIGN section 3.")
CLAIMED = {
    "C09": ("Unbounded proof, per function and per numeric argument type, that quantise_scale & co compute exactly the TFLite "
            "reference multiplier/shift (bit-exact IEEE-754 reasoning in z3 FloatingPoint + bit-vectors) and the stated error/range bounds; "
            "a ∀-statement over all floats that tests can only sample.",
            PYVC_NOTE, "contract-based deductive verification (symbolic execution of real AST + SMT)", "DESIGN.md 3/C09"),
}
PLANNED = "claimed in DESIGN.md; its contracts are not built yet in this revision, so no check is registered"
NOT_APPLICABLE = {
    "C01": "whole-compiler semantic equivalence over graphs and schedules: no contract on any function in reach can state it (DESIGN 4)",
    "C03": "trace property of the emitted stream over all schedules; mechanisms outside the verifiable subset (DESIGN 4)",
    "C07": "C sources; no deductive C verifier is installed (DESIGN 4)",
    "C11": "flatbuffer reader/writer and graph partitioning by reflection over object graphs (DESIGN 4)",
    "C12": "emergent from live-range extraction + writer; only the allocator link is contract-sized and it is C05 (DESIGN 4)",
    "C13": "totality of the whole compiler; per-function no_exception obligations do not decide it (DESIGN 4)",
    "C14": "2-safety over process histories and global mutable state (DESIGN 4)",
    "C16": "pipeline-emergent placement and natural-language report text (DESIGN 4)",
    "C02": PLANNED, "C04": PLANNED, "C05": PLANNED, "C06": PLANNED, "C08": PLANNED, "C10": PLANNED,
    "C15": PLANNED, "C17": PLANNED, "C18": PLANNED, "C19": PLANNED,
}
